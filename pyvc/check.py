"""./check <PROPERTY> [--tier quick|thorough] [--replay FILE]

exit 0  every obligation of the property discharged (known findings printed as KNOWN-FINDING)
exit 1  VIOLATION property=<id> replay=<path> [no-failing-input-found]
exit 2  UNDECIDED (solver unknown with no failing input, construct outside the subset, contract mismatch)
exit 3  checker crash
"""
import argparse
import hashlib
import json
import os
import re
import subprocess
import sys
import time
import traceback

VERIF = os.path.dirname(os.path.dirname(os.path.abspath(__file__)))
sys.path.insert(0, VERIF)

from pyvc import spec as S          # noqa: E402
from pyvc import models             # noqa: E402
from pyvc.kinds import Unsupported, ContractError   # noqa: E402
from pyvc.repo import Repo          # noqa: E402
from pyvc.engine import Engine      # noqa: E402
from pyvc.verify import verify_function     # noqa: E402
from pyvc import solve              # noqa: E402
import contracts                    # noqa: E402

NATIVE_PY = '/venv/bin/python'
GLOBAL_ASSUMPTIONS = [
    "VC generator pyvc is itself unverified (mitigations: canary/cover obligations, mutation self-tests, native run-time contract checks of the same clause text)",
    "machine floats are treated as mathematical reals except in obligations tagged fp64",
    "Python ints are unbounded (exact); numpy integer dtypes get explicit range obligations where declared",
    "extraction drops: docstrings, comments, type annotations, LOGGER/logging/print calls, f-string text inside raise, decorators (functools.cache: see purity obligations; numba_guard.njit: see C15)",
]


def sanitize(s):
    return re.sub(r'[^A-Za-z0-9_.-]+', '_', s)[:120]


def native_search(qualname, n, seed, label=None, timeout=600):
    cmd = [NATIVE_PY, os.path.join(VERIF, 'native', 'runcheck.py'), 'search', qualname, str(n), str(seed)]
    if label:
        cmd.append(label)
    env = dict(os.environ)
    env.setdefault('NUMBA_DISABLE_JIT', '1')
    try:
        p = subprocess.run(cmd, capture_output=True, text=True, timeout=timeout, env=env)
        line = [l for l in p.stdout.splitlines() if l.startswith('{')]
        if not line:
            return dict(error='native check produced no result', stderr=p.stderr[-1500:])
        return json.loads(line[-1])
    except subprocess.TimeoutExpired:
        return dict(error='native check timed out')


BASELINE_FILE = os.path.join(VERIF, 'baseline_obligations.json')


def load_baseline():
    """{qualname: {sha, proved:[stable obligation names]}} recorded on the reference tree (maintenance mode only,
    PYVC_RECORD_BASELINE=1); never written by an ordinary run."""
    if os.path.exists(BASELINE_FILE):
        return json.load(open(BASELINE_FILE))
    return {}


def code_changed(base, cur):
    """has the code of the function (AST without positions/docstrings/comments, plus inlined callees) changed since the
    reference tree?  Older baseline entries only carry the text hash."""
    if base.get('ast_sha') and cur.get('ast_sha'):
        return base['ast_sha'] != cur['ast_sha']
    return base.get('sha') != cur.get('sha')


def clause_label(fl):
    """label of a failed clause as the native checker prints it: 'post:[C17] name-of-the-clause ...' -> tag and name"""
    tk = fl.split(' ')
    if tk[0].endswith(']') and len(tk) > 1:
        return tk[0] + ' ' + tk[1]
    return tk[0]


def stable_name(name):
    return re.sub(r'@L\d+', '', name)


def load_known():
    p = os.path.join(VERIF, 'known_findings.json')
    if os.path.exists(p):
        return json.load(open(p))
    return []


def generate(qualnames, lambda_mode):
    """-> (per_fn dict, engine)"""
    eng = Engine(Repo())
    eng.ref_locals = {q: b.get('locals') for q, b in load_baseline().items() if b.get('locals')}
    eng.ref_loopvars = {q: b.get('loopvars') for q, b in load_baseline().items() if b.get('loopvars') is not None}
    per = {}
    for q in qualnames:
        # a contract may state which array encoding its obligations are known to discharge in
        pref = S.CONTRACTS[q].ghost.get('mode') == 'lambda'
        models.LAMBDA_MODE[0] = (not pref) if lambda_mode else pref
        try:
            r = verify_function(eng, q)
            for n, ob in enumerate(r['obligations']):
                ob.seq = n
            per[q] = r
        except (Unsupported, ContractError) as e:
            per[q] = dict(error="%s: %s" % (type(e).__name__, e), obligations=[])
        except RecursionError as e:
            per[q] = dict(error="RecursionError: %s" % e, obligations=[])
        except Exception as e:      # an engine defect on one function must not hide what the other functions show
            per[q] = dict(error="EngineCrash %s: %s | %s" % (type(e).__name__, str(e)[:200], traceback.format_exc()[-600:]), obligations=[])
    return per, eng


class Obl:
    pass


def run_property(pid, tier, seed, out=sys.stdout):
    t_start = time.time()
    contracts.load_all()
    import lemmas as LM
    LM.load_all()
    timeout_s = 30 if tier == 'quick' else 120
    native_n = 150 if tier == 'quick' else 2000
    fucs = [q for q, c in S.CONTRACTS.items() if pid in c.props and not c.trusted]
    trusted = [q for q, c in S.CONTRACTS.items() if pid in c.props and c.trusted]
    structural = [s for s in getattr(S, 'STRUCTURAL', []) if pid in s['props']]
    lemma_list = [l for l in S.LEMMAS if pid in l.props]
    if not fucs and not structural and not lemma_list:
        print("UNDECIDED property=%s no contracts registered" % pid, file=out)
        return 2

    t_gen0 = time.time()
    per, eng = generate(fucs, False)
    t_gen = time.time() - t_gen0
    obls = []
    for q in fucs:
        for ob in per[q]['obligations']:
            obls.append((q, ob))
    t_s0 = time.time()
    results = solve.discharge([ob for _, ob in obls], timeout_s=timeout_s)
    t_solve1 = time.time() - t_s0
    # second chance in Lambda mode for what is still open
    open_idx = [i for i, r in enumerate(results) if r['verdict'] == solve.UNKNOWN and not r['expect_sat']]
    if open_idx:
        open_fns = sorted(set(obls[i][0] for i in open_idx))
        per2, _ = generate(open_fns, True)
        retry, where = [], []
        for i in open_idx:
            q, ob = obls[i]
            alt = per2.get(q, {}).get('obligations', [])
            if ob.seq < len(alt) and alt[ob.seq].name == ob.name:
                retry.append(alt[ob.seq])
                where.append(i)
        if retry:
            res2 = solve.discharge(retry, timeout_s=timeout_s)
            for i, r in zip(where, res2):
                if r['verdict'] != solve.UNKNOWN:
                    r['backend'] += '+lambda'
                    results[i] = r
        models.LAMBDA_MODE[0] = False

    # lemmas (code-independent) and structural obligations
    lemma_results = []
    if lemma_list:
        from pyvc import lemmas as L
        lemma_results = L.discharge_lemmas(lemma_list, timeout_s)
    lean_skipped = []
    from pyvc import lemmas as L2
    for le in L2.LEAN_LEMMAS:
        if pid in le['props']:
            if tier == 'thorough':
                lemma_results.append(L2.run_lean(le, VERIF))
            else:
                lean_skipped.append(le['name'] + ' (Lean lemma: checked in the thorough tier only)')
    struct_results = []
    for s in structural:
        try:
            for (name, ok, detail) in s['fn'](Repo()):
                struct_results.append(dict(name=s['name'] + ':' + name, ok=bool(ok), detail=detail, fn=s.get('anchor', '')))
        except (Unsupported, ContractError) as e:
            struct_results.append(dict(name=s['name'], ok=None, detail="%s: %s" % (type(e).__name__, e), fn=''))

    # binary64 obligations (pyvc/fpkernel.py): generated from the real source, discharged by z3's FloatingPoint theory
    fp_runs = []
    for fs in getattr(S, 'FPSPECS', []):
        if pid not in fs['props']:
            continue
        from pyvc import fpkernel
        try:
            fres, finfo = fpkernel.run(fs, Repo(), timeout_s * 4, procs=12)
            fp_runs.append((fs, fres, finfo, None))
        except (fpkernel.FPUnsupported, Unsupported, ContractError) as e:
            fp_runs.append((fs, [], {}, "%s: %s" % (type(e).__name__, e)))

    baseline = load_baseline()
    known = [k for k in load_known() if k.get('property') == pid]
    known_open = {k['obligation']: k for k in known if k.get('status') == 'open'}
    known_open_all = [k['obligation'] for k in load_known() if k.get('status') == 'open']
    known_native_clauses = {}       # function -> clause labels by which an open finding shows in the native run-time check
    for k in load_known():
        if k.get('status') == 'open' and k.get('native_clauses'):
            known_native_clauses.setdefault(k['obligation'].split(':')[0], set()).update(k['native_clauses'])

    # ---- bounded stand-in / counterexample finder: run-time contracts on the real functions
    bounded = []
    native_by_fn = {}
    need_native = set()
    for (q, ob), r in zip(obls, results):
        if r['verdict'] != solve.PROVED:
            need_native.add(q)
    for q in fucs:
        if per[q].get('error'):
            need_native.add(q)
    from concurrent.futures import ThreadPoolExecutor
    plan = {q: (native_n if q in need_native else max(30, native_n // 5)) for q in fucs}
    todo_bounded = [b for b in getattr(S, 'BOUNDED', []) if pid in b['props'] and (tier == 'thorough' or b.get('quick', True))]
    with ThreadPoolExecutor(max_workers=12) as tp:
        futs = {q: tp.submit(native_search, q, plan[q], seed) for q in fucs}
        bfuts = [(b, tp.submit(b['fn'], tier, seed)) for b in todo_bounded]
        native_results = {q: f.result() for q, f in futs.items()}
        bounded_results = [(b, f.result()) for b, f in bfuts]
    for q in fucs:
        n = plan[q]
        nr = native_results[q]
        native_by_fn[q] = nr
        bounded.append(dict(function=q, kind='bounded run-time contract check of the real function (NOT counted as proved)',
                            cases=nr.get('cases', 0), checked=nr.get('checked', 0),
                            skipped_by_requires=nr.get('skipped_pre', 0), failures=len(nr.get('failures', [])),
                            clauses_without_native_reading=nr.get('not_native', []), error=nr.get('error'),
                            bound="%d generated inputs, seed %d, sizes <= ~12" % (n, seed)))

    os.makedirs(os.path.join(VERIF, 'replays'), exist_ok=True)
    violations, undecided, known_hits, discharged, total = [], [], [], 0, 0
    samples = []
    by_backend = {}
    solver_s = 0.0
    vacuity_unchecked = []
    refuted_known = []
    sample_kinds = {}
    cex_budget = [6]        # at most this many solver models are decoded and replayed per run

    def relevant(q, f):
        """a native failure counts for this property unless every failed clause is tagged for other properties only
        or is a listed open finding"""
        short = q.replace('fast_ticc.', '').split('#')[0]
        for fl in f['failed']:
            lab = clause_label(fl)
            mt = re.search(r'\[(C\d+(?:,C\d+)*)\]', fl)
            if mt and pid not in mt.group(1).split(','):
                continue
            if any(k.startswith(short) and (lab in k or fl in k) for k in known_open_all) or lab in known_native_clauses.get(short, ()):
                continue
            return True
        return False

    def native_failure_for(q, obname):
        nr = dict(native_by_fn.get(q) or {})
        if obname not in known_open:        # (a listed finding is confirmed by exactly the failures filtered out here)
            nr['failures'] = [f for f in nr.get('failures', []) if relevant(q, f)]
        label = obname.split(':', 1)[1] if ':' in obname else obname
        for f in nr.get('failures', []):
            for fl in f['failed']:
                if clause_label(fl) == label or label.startswith(clause_label(fl)) or clause_label(fl) in label:
                    return f
        # any failure of the same function is still a concrete failing input for the function's contract
        return (nr.get('failures') or [None])[0]

    grouped = {}
    covers = {}
    tag_re = re.compile(r'\[(C\d+(?:,C\d+)*)\]')
    for (q, ob), r in zip(obls, results):
        mt = tag_re.search(ob.name)
        if mt and pid not in mt.group(1).split(','):
            continue        # clause tagged for other properties only
        solver_s += r['time']
        by_backend[r['backend']] = by_backend.get(r['backend'], 0) + 1
        if ob.kind == 'cover':
            covers.setdefault((q, ob.name), []).append(r['verdict'])
            continue
        grouped.setdefault((q, ob.name), []).append((ob, r))

    # vacuity guards: a cover obligation is 'proved' when its hypotheses are satisfiable, 'refuted' when they
    # are contradictory.  Contradictory requires / loop-body hypotheses, or ALL return paths contradictory,
    # mean every proof of that function would be vacuous.
    for (q, name), verdicts in covers.items():
        if all(v == solve.REFUTED for v in verdicts):
            undecided.append(dict(obligation=name, why='VACUITY: hypotheses are contradictory on every path (%d)' % len(verdicts)))
        elif not any(v == solve.PROVED for v in verdicts):
            nr = native_by_fn.get(q) or {}
            if not nr.get('checked', 0):
                vacuity_unchecked.append(name)
    for (q, name), items in grouped.items():
        total += 1
        verdicts = [r['verdict'] for _, r in items]
        if all(v == solve.PROVED for v in verdicts):
            discharged += 1
            ob, r = items[0]
            # evidence samples: at most two per obligation kind, so that the list shows postconditions, invariants,
            # callee preconditions, frames and bounds rather than the first few obligations of the first function
            if sample_kinds.get(ob.kind, 0) < 2 and len(samples) < 14:
                sample_kinds[ob.kind] = sample_kinds.get(ob.kind, 0) + 1
                samples.append(dict(obligation=name, kind=ob.kind, function=q, line=ob.lineno, paths=len(items),
                                    verdict='proved', backend=r['backend'], solver_s=round(sum(x['time'] for _, x in items), 3)))
            continue
        bad = [(ob, r) for ob, r in items if r['verdict'] != solve.PROVED]
        ob, r = bad[0]
        if ob.kind in ('deadpath', 'proofstep'):
            # (proofstep: an intermediate lemma step of a loop contract -- a proof device; when it fails on changed code the
            # proof has to be redone, nothing is known about the property)
            # construct outside the supported subset on a path that is not shown infeasible: nothing is decided by the
            # verifier; the run-time check of the same contract on the real function may still exhibit a failing input
            nf = native_failure_for(q, name)
            if nf:
                vname = q.replace('fast_ticc.', '') + ':' + clause_label(nf['failed'][0])
                path = os.path.join(VERIF, 'replays', '%s-%s.json' % (pid, sanitize(vname)))
                json.dump(dict(property=pid, obligation=vname, function=q, verdict='native-contract-failure (function outside the verified subset: %s)' % name,
                               solver_output=None, native=dict(qualname=q, seed=nf['seed'], index=nf['index'], args=nf['args'],
                                                               failed=nf['failed'], result=nf.get('result'))),
                          open(path, 'w'), indent=1, default=str)
                if not any(v[0] == vname for v in violations):
                    violations.append((vname, path, True))
            undecided.append(dict(obligation=name, why='unsupported construct on a feasible path' if ob.kind == 'deadpath' else
                                  'intermediate proof step of the loop contract no longer goes through', trail=ob.trail))
            continue
        refuted = any(x['verdict'] == solve.REFUTED for _, x in bad)
        nf = native_failure_for(q, name)
        label_match = False
        if nf:
            lab = name.split(':', 1)[1]
            label_match = any(clause_label(fl) in lab or lab in fl for fl in nf['failed'])
        entry = dict(obligation=name, function=q, kind=ob.kind, line=ob.lineno, trail=ob.trail,
                     solver=r['backend'], verdict='refuted' if refuted else 'unknown',
                     solver_output=r.get('info'), source_sha=per[q].get('sha'))
        if name in known_open:
            k = known_open[name]
            # the listed finding must still reproduce natively (or be the same refuted obligation)
            if nf or refuted:
                known_hits.append((k, entry, nf))
                refuted_known.append(dict(obligation=name, witness=k.get('witness'), what=k.get('what')))
                total -= 1
                continue
        if refuted or (nf and label_match):
            path = os.path.join(VERIF, 'replays', '%s-%s.json' % (pid, sanitize(name)))
            entry['native'] = dict(qualname=q, seed=nf['seed'], index=nf['index'], args=nf['args'],
                                   failed=nf['failed'], result=nf.get('result')) if nf else None
            if refuted and not nf and per[q].get('entry') and cex_budget[0] > 0:
                # the verifier's own counterexample: read the arguments out of the model and run them on the real code
                cex_budget[0] -= 1
                from pyvc import cex
                rob = [o for o, x in bad if x['verdict'] == solve.REFUTED][0]
                cargs, why_not = None, None
                for opts in ({}, {'smt.mbqi': False}):
                    cargs, why_not = cex.decode(rob, per[q]['entry'], S.CONTRACTS[q], opts)
                    if cargs is not None:
                        break
                if cargs is not None:
                    rr = cex.replay_native(VERIF, q, cargs)
                    entry['counterexample_replay'] = dict(status=rr.get('status'), failed=rr.get('failed'), why=rr.get('why'), exc=rr.get('exc'))
                    if rr.get('status') == 'fail':
                        entry['native'] = dict(qualname=q, explicit_args=cargs, failed=rr.get('failed'), result=rr.get('result'),
                                               origin='arguments decoded from the solver model of the refuted obligation')
                else:
                    entry['counterexample_replay'] = dict(status='not-decoded', why=why_not)
            entry['property'] = pid
            json.dump(entry, open(path, 'w'), indent=1, default=str)
            violations.append((name, path, entry['native'] is not None))
        elif nf and not label_match:
            # the function's contract fails natively on another clause: report that clause
            path = os.path.join(VERIF, 'replays', '%s-%s.json' % (pid, sanitize(name)))
            entry['native'] = dict(qualname=q, seed=nf['seed'], index=nf['index'], args=nf['args'],
                                   failed=nf['failed'], result=nf.get('result'))
            entry['property'] = pid
            json.dump(entry, open(path, 'w'), indent=1, default=str)
            violations.append((name, path, True))
        else:
            why = 'solver: %s' % ((r.get('info') or {}).get('reason', 'unknown'))
            base = baseline.get(q)
            if base is not None and code_changed(base, per[q]):
                # The text of this function (or of a callee inlined into it) differs from the reference tree on which
                # every obligation of the function was discharged, and this obligation is no longer accepted: reported
                # as a violation without a failing input.  On unchanged text the same outcome can only be solver
                # variance and stays UNDECIDED.
                was = 'proved on the reference tree' if stable_name(name) in base.get('proved', []) else 'new obligation generated by the changed code'
                path = os.path.join(VERIF, 'replays', '%s-%s.json' % (pid, sanitize(name)))
                entry['property'] = pid
                entry['native'] = None
                entry['verdict'] = 'not discharged on changed code (%s); %s' % (was, why)
                entry['reference_sha'] = base.get('sha')
                json.dump(entry, open(path, 'w'), indent=1, default=str)
                violations.append((name, path, False))
            else:
                undecided.append(dict(obligation=name, why=why, trail=ob.trail))

    # functions that could not be brought under the engine
    for q in fucs:
        if per[q].get('error'):
            nr = native_by_fn.get(q) or {}
            rel = [f for f in nr.get('failures', []) if relevant(q, f)]     # (failures that ARE a listed open finding do not count)
            if rel:
                nf = rel[0]
                name = q.replace('fast_ticc.', '') + ':' + clause_label(([x for x in nf['failed'] if clause_label(x) not in known_native_clauses.get(q.replace('fast_ticc.', '').split('#')[0], ())] or nf['failed'])[0])
                if name in known_open:
                    known_hits.append((known_open[name], dict(obligation=name), nf))
                    refuted_known.append(dict(obligation=name, witness=known_open[name].get('witness')))
                else:
                    path = os.path.join(VERIF, 'replays', '%s-%s.json' % (pid, sanitize(name)))
                    json.dump(dict(property=pid, obligation=name, function=q, verdict='native-contract-failure',
                                   solver_output=per[q]['error'],
                                   native=dict(qualname=q, seed=nf['seed'], index=nf['index'], args=nf['args'],
                                               failed=nf['failed'], result=nf.get('result'))), open(path, 'w'), indent=1, default=str)
                    violations.append((name, path, True))
            undecided.append(dict(obligation=q, why=per[q]['error']))

    for lr in lemma_results:
        total += 1
        solver_s += lr['time']
        by_backend[lr['backend']] = by_backend.get(lr['backend'], 0) + 1
        if lr['verdict'] == solve.PROVED:
            discharged += 1
        else:
            undecided.append(dict(obligation=lr['name'], why='lemma not proved: %s' % lr['verdict']))
    for sr in struct_results:
        total += 1
        by_backend['ast-dataflow'] = by_backend.get('ast-dataflow', 0) + 1
        if sr['ok'] is True:
            discharged += 1
            if sum(1 for x in samples if x.get("kind") == "structural") < 3:
                samples.append(dict(obligation=sr['name'], kind='structural', verdict='proved', detail=sr['detail'][:300]))
        elif sr['ok'] is None:
            undecided.append(dict(obligation=sr['name'], why=sr['detail']))
        else:
            name = sr['name']
            if name in known_open:
                known_hits.append((known_open[name], dict(obligation=name), None))
                refuted_known.append(dict(obligation=name, witness=known_open[name].get('witness')))
                total -= 1
                continue
            path = os.path.join(VERIF, 'replays', '%s-%s.json' % (pid, sanitize(name)))
            json.dump(dict(property=pid, obligation=name, verdict='refuted (structural obligation)',
                           solver_output=sr['detail'], native=None), open(path, 'w'), indent=1)
            violations.append((name, path, False))

    fp_evidence = []
    for fs, fres, finfo, ferr in fp_runs:
        q = fs['qualname']
        fname = "fp64:%s:post:%s" % (q.replace('fast_ticc.', ''), fs['label'])
        if ferr:
            undecided.append(dict(obligation=fname, why='binary64 extraction: ' + ferr))
            fp_evidence.append(dict(function=q, error=ferr))
            continue
        # cross-check of the extraction (bounded, not counted as proved): z3's value of the extracted term against what the
        # real function returns, bit for bit, at 200 points
        try:
            cvals = fpkernel.concrete_values(fs, Repo(), 200, seed)
            cp = subprocess.run([NATIVE_PY, os.path.join(VERIF, 'native', 'fp_replay.py'),
                                 json.dumps(dict(qualname=q, native_args=fs['native_args'], native_ok=fs['native_ok'], ranges={}, compare=cvals))],
                                capture_output=True, text=True, env=dict(os.environ, NUMBA_DISABLE_JIT='1', PYTHONPATH=os.environ.get('PYVC_REPO_SRC', '/repo/src')))
            xc = json.loads(cp.stdout.strip().splitlines()[-1])
        except Exception as e:      # noqa
            xc = dict(status='error', why=repr(e)[:300])
        finfo['encoding_cross_check'] = xc
        bounded.append(dict(function=q, kind='bounded cross-check of the binary64 extraction against the real function (NOT counted as proved)',
                            cases=xc.get('cases', 0), failures=0 if xc.get('status') == 'ok' else 1,
                            bound='200 points, magnitudes 1e-100..1e100, bit-for-bit comparison', outcome=xc))
        if xc.get('status') != 'ok':
            undecided.append(dict(obligation='fp64:%s:encoding' % q.replace('fast_ticc.', ''),
                                  why='the extracted binary64 term does not reproduce the real function: %s' % str(xc)[:300]))
        fp_evidence.append(dict(finfo, obligations=[dict(name=r['name'], verdict=r['verdict'], s=round(r['time'], 2)) for r in fres]))
        bad = [r for r in fres if r['verdict'] != solve.PROVED]
        for r in fres:
            total += 1
            solver_s += r['time']
            by_backend[r['backend']] = by_backend.get(r['backend'], 0) + 1
            if r['verdict'] == solve.PROVED:
                discharged += 1
        if fres and not bad and sum(1 for x in samples if x.get('kind') == 'fp64') < 2:
            samples.append(dict(obligation=fres[-1]['name'], kind='fp64', function=q, verdict='proved', backend='z3-fp64',
                                solver_s=round(sum(r['time'] for r in fres), 2)))
        if not bad:
            continue
        # a concrete input: the solver's model of the whole expression, else a sweep over magnitudes -- replayed on the real function
        rspec = dict(qualname=q, native_args=fs['native_args'], native_ok=fs['native_ok'],
                     ranges={k: list(v) for k, v in fs['inputs'].items()}, point=None)
        tried = []
        fail = None
        for point in (None, 'solver'):
            if point == 'solver':
                # the sweep found nothing: ask the solver for a model of the whole (uncut) expression and replay that
                try:
                    ws = fpkernel.whole_search(fs, Repo(), min(timeout_s * 2, 120))
                except Exception as e:      # noqa
                    ws = dict(result='error: %s' % e)
                finfo['whole_expression_search'] = ws
                point = ws.get('counterexample')
                if not point or any(v is None for v in point.values()):
                    break
            pr = subprocess.run([NATIVE_PY, os.path.join(VERIF, 'native', 'fp_replay.py'), json.dumps(dict(rspec, point=point))],
                                capture_output=True, text=True, env=dict(os.environ, NUMBA_DISABLE_JIT='1', PYTHONPATH=os.path.join(os.path.dirname(os.environ.get('PYVC_REPO_SRC', '/repo/src')), 'src')))
            try:
                out_j = json.loads(pr.stdout.strip().splitlines()[-1])
            except Exception:
                out_j = dict(status='error', why=(pr.stderr or pr.stdout)[-300:])
            tried.append(dict(point=point, outcome=out_j))
            if out_j.get('status') == 'fail':
                fail = out_j
                break
        name = bad[-1]['name'] if bad[-1]['name'].endswith(fs['label']) else bad[0]['name']
        path = os.path.join(VERIF, 'replays', '%s-%s.json' % (pid, sanitize(name)))
        entry = dict(property=pid, obligation=name, function=q, kind='fp64',
                     verdict='; '.join('%s: %s' % (r['name'], r['verdict']) for r in bad)[:1500],
                     solver_output=dict(models=[r.get('model') for r in bad][:3], whole_expression_search=finfo.get('whole_expression_search')),
                     source_sha=finfo.get('sha'), counterexample_replay=tried)
        base = baseline.get(q)
        if fail:
            entry['native'] = dict(fp_replay=dict(rspec, point=fail['input']), result=fail.get('result'))
            json.dump(entry, open(path, 'w'), indent=1, default=str)
            violations.append((name, path, True))
        elif base is not None and q in per and per[q].get('ast_sha') and code_changed(base, per[q]):
            entry['native'] = None
            entry['verdict'] = 'not discharged on changed code; ' + entry['verdict']
            entry['reference_sha'] = base.get('ast_sha')
            json.dump(entry, open(path, 'w'), indent=1, default=str)
            violations.append((name, path, False))
        else:
            for r in bad:
                undecided.append(dict(obligation=r['name'], why='binary64 obligation: %s' % r['verdict']))

    # property-level bounded/native stand-ins registered by the contracts (e.g. end-to-end runs)
    for b, br in bounded_results:
            bounded.append(br)
            if br.get('error'):
                undecided.append(dict(obligation='bounded:' + b['name'], why='bounded check did not run: %s' % str(br.get('error'))[:300]))
            seen_names = set()
            for fail in br.get('failing', []):
                name = 'bounded:' + fail['what']
                tag = re.search(r'\bC\d\d\b', fail['what'])
                if name in seen_names or (tag and tag.group(0) != pid):
                    continue
                seen_names.add(name)
                if name in known_open:
                    known_hits.append((known_open[name], dict(obligation=name), fail))
                    continue
                path = os.path.join(VERIF, 'replays', '%s-%s.json' % (pid, sanitize(name)))
                json.dump(dict(property=pid, obligation=name, verdict='bounded-check-failure (run-time check of the real code)',
                               native=dict(fail, bounded_check=b['name'], tier=tier, seed=seed)),
                          open(path, 'w'), indent=1, default=str)
                violations.append((name, path, True))

    # ---- evidence
    fuc_list = []
    for q in fucs:
        p = per[q]
        fuc_list.append(dict(function=q, source_sha256_16=p.get('sha'), lines=p.get('lines'), file=p.get('file'),
                             paths=p.get('paths'), error=p.get('error'),
                             obligations=len(p.get('obligations', []))))
    assumptions = list(GLOBAL_ASSUMPTIONS) + sorted(eng.assumed) + ["assumed contract (not verified here): " + t for t in trusted]
    if fp_evidence:
        assumptions.append("EXCEPTION to 'machine floats are mathematical reals': the fp64:* obligations are stated and discharged in IEEE binary64 "
                           "(round-to-nearest-even) by z3's FloatingPoint theory; they cover the elementwise statements of x_update_prox only "
                           "(np.linalg.eigh and the matrix product q @ diag(e) @ q.T are outside)")
    ev = dict(property_id=pid, tier=tier, seed=seed, level='other' if pid == 'C15' else 'proof',
              coverage=dict(obligations=total, discharged=discharged,
                            checker_cmd="python3-vt /verif/pyvc/check.py %s --tier %s  (z3 %s via z3-solver; /usr/bin/cvc5 on z3 unknowns)" % (pid, tier, solve.z3.get_version_string()),
                            trusted_base=sorted(set(a for a in assumptions if a.startswith('library model') or a.startswith('assumed contract') or a.startswith('lemma'))),
                            by_backend=by_backend, solver_s=round(solver_s, 2),
                            functions_under_contract=fuc_list, samples=samples or [dict(note='no obligation discharged')],
                            slowest=[dict(obligation=r['name'], trail='/'.join(r['trail']), s=round(r['time'], 2), backend=r['backend'], verdict=r['verdict'])
                                     for r in sorted(results, key=lambda r: -r['time'])[:12]],
                            bounded=bounded, undecided=undecided, refuted_known=refuted_known,
                            vacuity_unchecked=vacuity_unchecked,
                            path_obligations=len(obls), lemmas=[l['name'] for l in lemma_results], lemmas_not_run_in_this_tier=lean_skipped,
                            structural=[s['name'] for s in struct_results], fp64=fp_evidence,
                            explanation="obligations = distinct named obligations (each may have several per-path queries; all paths must be discharged); bounded[] entries are run-time contract checks and are not part of obligations/discharged"),
              assumptions=assumptions, wall_s=round(time.time() - t_start, 2), violations=len(violations))
    if os.environ.get('PYVC_RECORD_BASELINE'):
        # maintenance mode, run on the reference tree only: which obligations of which function text are discharged
        bl = load_baseline()
        proved_by_fn = {}
        for (q, name), items in grouped.items():
            if all(r['verdict'] == solve.PROVED for _, r in items):
                proved_by_fn.setdefault(q, set()).add(stable_name(name))
        for q in fucs:
            if per[q].get('sha'):
                old = bl.get(q, {})
                prev = set(old.get('proved', [])) if not code_changed(old, per[q]) else set()
                bl[q] = dict(sha=per[q]['sha'], ast_sha=per[q].get('ast_sha'), locals=per[q].get('locals'), loopvars=per[q].get('loopvars'), proved=sorted(prev | proved_by_fn.get(q, set())))
        json.dump(bl, open(BASELINE_FILE, 'w'), indent=0, sort_keys=True)
    if os.environ.get('PYVC_RECORD_HINTS'):
        # maintenance mode: remember which solver configuration discharged each obligation (speed hint, see solve.py)
        h = dict(solve.load_hints())
        h.update(solve.NEW_HINTS)
        json.dump(h, open(solve.HINTS_FILE, 'w'), indent=0, sort_keys=True)
    # development runs against a scratch copy (PYVC_REPO_SRC) must not overwrite the evidence of /repo
    evdir = os.environ.get('PYVC_EVIDENCE_DIR') or (os.path.join(VERIF, 'evidence') if not os.environ.get('PYVC_REPO_SRC') else '/tmp/pyvc_evidence')
    os.makedirs(evdir, exist_ok=True)
    json.dump(ev, open(os.path.join(evdir, pid + '.json'), 'w'), indent=1, default=str)

    for k, entry, nf in known_hits:
        print("KNOWN-FINDING: property=%s %s -- %s" % (pid, k['obligation'], k.get('what', '')), file=out)
    for name, path, has_input in violations:
        print("VIOLATION property=%s replay=%s%s" % (pid, path, '' if has_input else ' no-failing-input-found'), file=out)
        print("  obligation: %s" % name, file=out)
    if violations:
        return 1
    if undecided:
        for u in undecided:
            print("UNDECIDED property=%s obligation=%s why=%s" % (pid, u['obligation'], str(u['why'])[:300]), file=out)
        return 2
    if total == 0 or discharged == 0:
        print("UNDECIDED property=%s zero obligations generated" % pid, file=out)
        return 2
    print("OK property=%s obligations=%d discharged=%d path-queries=%d known-findings=%d wall=%.1fs (generate %.1fs, first solve pass %.1fs)" %
          (pid, total, discharged, len(obls), len(known_hits), time.time() - t_start, t_gen, t_solve1), file=out)
    return 0


def replay(pid, path):
    rep = json.load(open(path))
    if not rep.get('native'):
        print("replay file names obligation %s; verifier output: %s" % (rep.get('obligation'), str(rep.get('solver_output'))[:500]))
        print("VIOLATION property=%s replay=%s no-failing-input-found" % (pid, path))
        return 1
    if rep['native'].get('bounded_check'):
        nat = rep['native']
        from contracts.c_bounded import run_bounded
        br = run_bounded(nat['bounded_check'], nat.get('tier', 'quick'), nat.get('seed', 1))
        again = [f for f in br.get('failing', []) if f['what'] == nat['what']]
        print(json.dumps(again[:3], default=str)[:3000])
        if again:
            print("VIOLATION property=%s replay=%s" % (pid, path))
            return 1
        print("replay did not reproduce on the current tree")
        return 0
    if rep['native'].get('fp_replay'):
        p = subprocess.run([NATIVE_PY, os.path.join(VERIF, 'native', 'fp_replay.py'), json.dumps(rep['native']['fp_replay'])],
                           capture_output=True, text=True, env=dict(os.environ, NUMBA_DISABLE_JIT='1'))
        print(p.stdout.strip()[-2000:])
        if p.returncode == 1:
            print("VIOLATION property=%s replay=%s" % (pid, path))
            return 1
        print("replay did not reproduce on the current tree")
        return 0
    if 'qualname' not in rep['native']:
        print(json.dumps(rep['native'])[:2000])
        print("VIOLATION property=%s replay=%s" % (pid, path))
        return 1
    p = subprocess.run([NATIVE_PY, os.path.join(VERIF, 'native', 'runcheck.py'), 'replay', path],
                       capture_output=True, text=True, env=dict(os.environ, NUMBA_DISABLE_JIT='1'))
    print(p.stdout.strip()[-3000:])
    if p.returncode == 1:
        print("VIOLATION property=%s replay=%s" % (pid, path))
        return 1
    print("replay did not reproduce on the current tree")
    return 0


def main():
    ap = argparse.ArgumentParser()
    ap.add_argument('property')
    ap.add_argument('--tier', default=os.environ.get('VERIF_TIER', 'quick'))
    ap.add_argument('--replay')
    a = ap.parse_args()
    seed = int(os.environ.get('VERIF_SEED', '1'))
    try:
        if a.replay:
            sys.exit(replay(a.property, a.replay))
        sys.exit(run_property(a.property, a.tier if a.tier in ('quick', 'thorough') else 'quick', seed))
    except SystemExit:
        raise
    except BaseException:
        traceback.print_exc()
        print("CHECKER-CRASH property=%s" % a.property)
        sys.exit(3)


if __name__ == '__main__':
    main()
