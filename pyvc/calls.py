"""Calls: spec vocabulary, contract application (modular), inlining, methods."""
import ast
import re
import z3

from .core import (Val, NONE, vint, vreal, vbool, vtuple, to_real, to_int, truth, State, Unsupported,
                   ContractError, fresh_name, sort_of, elem_tag, is_ref_kind, I, R, B)
from . import spec as S
from .kinds import parse_kind

_clause_cache = {}


def parse_clause(src):
    if src not in _clause_cache:
        try:
            _clause_cache[src] = ast.parse(src.strip(), mode='eval').body
        except SyntaxError as e:
            raise ContractError("clause syntax: %s: %r" % (e, src))
    return _clause_cache[src]


def spec_state(st, env, old=None, extra=None):
    s = State.__new__(State)
    s.env = dict(env)
    s.heap = st.heap
    s.pc = st.pc            # shared: validity facts discovered while reading are global invariants
    s.guards = []
    s.pending_raises = []
    s.trail = st.trail
    s.ghost = st.ghost
    s.spec = True
    s.spec_env = dict(extra or {})
    s.old = old
    s.hint_ek = None
    return s


def eval_clause(eng, src, env, st, old=None, extra=None):
    node = parse_clause(src)
    ss = spec_state(st, env, old, extra)
    v = eng.ev(node, ss)
    return v


def eval_bool(eng, src, env, st, old=None, extra=None):
    v = eval_clause(eng, src, env, st, old, extra)
    return truth(v) if v.k != 'bool' else v.t


# ---------------------------------------------------------------- spec vocabulary
def _bind_lambda(eng, lam, st, kinds=None):
    if not isinstance(lam, ast.Lambda):
        raise ContractError("quantifier needs a lambda")
    names = [a.arg for a in lam.args.args]
    consts = []
    saved = {}
    for n in names:
        kind = 'int'
        if n.startswith('l_'):
            kind = ('list', 'int')      # bound variable ranging over (references to) integer lists
        if n.startswith('x_') or n.startswith('r_'):
            kind = 'real'
        c = z3.Const(fresh_name(n), sort_of(kind))
        consts.append(c)
        saved[n] = st.env.get(n)
        st.env[n] = Val(kind, c)
    return names, consts, saved


def _unbind(st, saved):
    for n, v in saved.items():
        if v is None:
            st.env.pop(n, None)
        else:
            st.env[n] = v


def sp_forall(eng, node, st, exists=False):
    args = node.args
    lam = args[-1]
    names, consts, saved = _bind_lambda(eng, lam, st)
    st.ghost['qdepth'] = st.ghost.get('qdepth', 0) + 1
    saved_qvars = st.ghost.get('qvars', ())
    st.ghost['qvars'] = tuple(saved_qvars) + tuple(consts)
    try:
        rng = []
        if len(args) == 3:
            lo = to_int(eng.ev(args[0], st))
            hi = to_int(eng.ev(args[1], st))
            for c in consts:
                rng.append(z3.And(lo <= c, c < hi))
        elif len(args) != 1:
            raise ContractError("forall(lo, hi, lambda) or forall(lambda)")
        body = eng.ev(lam.body, st)
        body = truth(body) if body.k != 'bool' else body.t
        pats = []
        for kw in node.keywords:
            if kw.arg == 'pat':
                elts = kw.value.elts if isinstance(kw.value, ast.Tuple) else [kw.value]
                terms = []
                for e in elts:
                    v = eng.ev(e, st)
                    terms.append(v.t if v.t is not None else None)
                pats.append(z3.MultiPattern(*terms) if len(terms) > 1 else terms[0])
    finally:
        _unbind(st, saved)
        st.ghost['qdepth'] -= 1
        st.ghost['qvars'] = saved_qvars
    if pats and not exists:
        f = z3.Implies(z3.And(*rng), body) if rng else body
        try:
            return vbool(z3.ForAll(consts, f, patterns=pats))
        except z3.Z3Exception:
            pass
    if exists:
        f = z3.And(*(rng + [body]))
        return vbool(z3.Exists(consts, f))
    f = z3.Implies(z3.And(*rng), body) if rng else body
    return vbool(z3.ForAll(consts, f))


def sp_exists(eng, node, st):
    return sp_forall(eng, node, st, exists=True)


def sp_implies(eng, node, st):
    a = eng.ev(node.args[0], st)
    a = truth(a) if a.k != 'bool' else a.t
    st.guards.append(a)
    try:
        b = eng.ev(node.args[1], st)
    finally:
        st.guards.pop()
    b = truth(b) if b.k != 'bool' else b.t
    return vbool(z3.Implies(a, b))


def sp_ite(eng, node, st):
    c = eng.ev(node.args[0], st)
    c = truth(c) if c.k != 'bool' else c.t
    return eng.ite(c, eng.ev(node.args[1], st), eng.ev(node.args[2], st))


def sp_old(eng, node, st):
    if st.old is None:
        raise ContractError("old() used where no pre-state exists")
    env, heap = st.old
    ss = spec_state(st, env, None, st.spec_env)
    ss.heap = heap
    # bound variables of enclosing quantifiers stay visible
    for k, v in st.env.items():
        if k not in ss.env:
            ss.env[k] = v
    return eng.ev(node.args[0], ss)


def sp_fresh(eng, node, st):
    v = eng.ev(node.args[0], st)
    if st.old is None:
        raise ContractError("fresh() needs a pre-state")
    return vbool(z3.And(v.t >= st.old[1].alloc, v.t < st.heap.alloc))


def sp_allocated(eng, node, st):
    """allocated(x): x is a reference that exists now (below the current allocation mark) and is not None"""
    v = eng.ev(node.args[0], st)
    return vbool(z3.And(v.t >= 1, v.t < st.heap.alloc))


def sp_in_set(eng, node, st):
    """in_set(x, S): membership in a set value or a ghost set"""
    x = to_int(eng.ev(node.args[0], st))
    sv = eng.ev(node.args[1], st)
    if sv.k == ('ghostset',):
        return vbool(z3.Select(sv.t, x))
    if isinstance(sv.k, tuple) and sv.k[0] == 'set':
        return vbool(z3.Select(st.heap.rd('set:', sv.t), x))
    raise ContractError("in_set() on %r" % (sv.k,))


def sp_same(eng, node, st):
    a, b = eng.ev(node.args[0], st), eng.ev(node.args[1], st)
    if a.t is None or b.t is None:
        raise ContractError("same() on non-reference values")
    return vbool(a.t == b.t)


def content_terms(eng, st, v, heap):
    k = v.k
    if v.py is not None and isinstance(v.py, tuple) and v.py[0] == 'valarr':
        sh = v.py[1]
        return [sh[0], v.py[2]] + ([sh[1]] if k[1] == 2 else [])
    if v.py is not None and isinstance(v.py, tuple) and v.py[0] == 'vallist':
        return [v.py[1], v.py[2]]
    if k[0] == 'list':
        return [heap.rd('len', v.t), heap.rd('el:' + elem_tag(k[1]), v.t)]
    if k[0] == 'arr':
        out = [heap.rd('sh0', v.t), heap.rd('d%d:%s' % (k[1], elem_tag(k[2])), v.t)]
        if k[1] == 2:
            out.append(heap.rd('sh1', v.t))
        return out
    if k[0] == 'obj':
        sch = S.CLASSES[k[1]]
        return [heap.rd('f:%s.%s:%s' % (k[1], f, elem_tag(fk)), v.t) for f, fk in sch.fields.items()]
    if k[0] == 'set':
        return [heap.rd('set:', v.t)]
    raise ContractError("unchanged() on %r" % (k,))


def sp_unchanged(eng, node, st):
    """content of the referenced list/array/object equals its content in the pre-state"""
    if st.old is None:
        raise ContractError("unchanged() needs a pre-state")
    out = []
    for a in node.args:
        v = eng.ev(a, st)
        if not is_ref_kind(v.k):
            raise ContractError("unchanged() on non-reference")
        now = content_terms(eng, st, v, st.heap)
        then = content_terms(eng, st, v, st.old[1])
        out += [x == y for x, y in zip(now, then)]
    return vbool(z3.And(*out))


def sp_eqcontent(eng, node, st):
    a, b = eng.ev(node.args[0], st), eng.ev(node.args[1], st)
    xs, ys = content_terms(eng, st, a, st.heap), content_terms(eng, st, b, st.heap)
    if a.k[0] == 'list':
        j = z3.Int(fresh_name('j'))
        return vbool(z3.And(xs[0] == ys[0], z3.ForAll([j], z3.Implies(z3.And(0 <= j, j < xs[0]),
                                                                       z3.Select(xs[1], j) == z3.Select(ys[1], j)))))
    return vbool(z3.And(*[x == y for x, y in zip(xs, ys)]))


def sp_len_unused(eng, node, st):
    v = eng.ev(node.args[0], st)
    from . import models
    return models.m_len(eng, st, [v], {}, node)


def sp_int(eng, node, st):
    from . import models
    return models.m_int(eng, st, [eng.ev(node.args[0], st)], {}, node)


def sp_isnone(eng, node, st):
    v = eng.ev(node.args[0], st)
    if v.k == 'none':
        return vbool(True)
    if is_ref_kind(v.k):
        return vbool(v.t == 0)
    return vbool(False)


def sp_real(eng, node, st):
    return vreal(to_real(eng.ev(node.args[0], st)))


def sp_alloc(eng, node, st):
    return vint(st.heap.alloc)


def sp_let(eng, node, st):
    """let(value, lambda x: body)"""
    v = eng.ev(node.args[0], st)
    lam = node.args[1]
    n = lam.args.args[0].arg
    saved = st.env.get(n)
    st.env[n] = v
    try:
        return eng.ev(lam.body, st)
    finally:
        if saved is None:
            st.env.pop(n, None)
        else:
            st.env[n] = saved


def sp_psum(eng, node, st):
    """psum(xs, n): sum of the first n elements of an integer list"""
    from . import models
    n = to_int(eng.ev(node.args[1], st))
    if isinstance(node.args[0], ast.Lambda):
        # psum(lambda s: term, n) with an explicit length bound as third argument
        names, consts, saved = _bind_lambda(eng, node.args[0], st)
        try:
            body = eng.ev(node.args[0].body, st)
        finally:
            _unbind(st, saved)
        models._CUR[0] = st
        a = z3.Lambda(consts, to_int(body)) if st.ghost.get('qdepth', 0) > 0 else models.lam(consts, to_int(body))
        ln = to_int(eng.ev(node.args[2], st)) if len(node.args) > 2 else n
        return vint(models.psum(eng, st, a, ln)(a, n))
    xs = eng.ev(node.args[0], st)
    if not (isinstance(xs.k, tuple) and xs.k[0] == 'list' and xs.k[1] == 'int'):
        raise ContractError("psum() needs a list of int")
    a = eng.list_arr(st, xs)
    return vint(models.psum(eng, st, a, eng.list_len(st, xs))(a, n))


def sp_rsum(eng, node, st):
    """rsum(lambda j: expr, n)  or  rsum(array_or_list, n): real sum of the first n terms"""
    from . import models
    n = to_int(eng.ev(node.args[1], st))
    a0 = node.args[0]
    if isinstance(a0, ast.Lambda):
        names, consts, saved = _bind_lambda(eng, a0, st)
        try:
            body = eng.ev(a0.body, st)
        finally:
            _unbind(st, saved)
        models._CUR[0] = st
        # under an enclosing quantifier the summand mentions bound variables: a genuine Lambda term is needed
        arr = z3.Lambda(consts, to_real(body)) if st.ghost.get('qdepth', 0) > 0 else models.lam(consts, to_real(body))
    else:
        v = eng.ev(a0, st)
        if isinstance(v.k, tuple) and v.k[0] == 'arr' and v.k[1] == 1:
            arr = eng.arr_data(st, v)
        elif isinstance(v.k, tuple) and v.k[0] == 'list':
            arr = eng.list_arr(st, v)
        else:
            raise ContractError("rsum() of %r" % (v.k,))
    return vreal(models.rsum(eng, st, arr, n)(arr, n))


def sp_norm(eng, node, st):
    """norm(lambda i: expr, n): the 2-norm of the 1-D array defined pointwise (same UF as np.linalg.norm)"""
    from . import models
    n = to_int(eng.ev(node.args[1], st))
    a0 = node.args[0]
    names, consts, saved = _bind_lambda(eng, a0, st)
    try:
        body = eng.ev(a0.body, st)
    finally:
        _unbind(st, saved)
    models._CUR[0] = st
    arr = z3.Lambda(consts, to_real(body)) if st.ghost.get('qdepth', 0) > 0 else models.lam(consts, to_real(body))
    return vreal(models._norm_uf(eng, 1)(arr, n))


def sp_norm2d(eng, node, st):
    from . import models
    v = eng.ev(node.args[0], st)
    return models.np_norm(eng, st, [v], {}, node)


def sp_sqrt(eng, node, st):
    from . import models
    return models.np_sqrt(eng, st, [eng.ev(node.args[0], st)], {}, node)


def sp_matmul(eng, node, st):
    from . import models
    return models.matmul(eng, st, eng.ev(node.args[0], st), eng.ev(node.args[1], st), node)


def sp_eigh_of(eng, node, st):
    """eigh_of(D, Q, lambda i, j: m_ij, n): (D, Q) is the assumed eigen-decomposition of the n x n matrix m"""
    from . import models
    d, q = eng.ev(node.args[0], st), eng.ev(node.args[1], st)
    n = to_int(eng.ev(node.args[3], st))
    names, consts, saved = _bind_lambda(eng, node.args[2], st)
    try:
        body = eng.ev(node.args[2].body, st)
    finally:
        _unbind(st, saved)
    models._CUR[0] = st
    arr = models.lam(consts, to_real(body))
    rel = eng.uf('eigh_rel', z3.ArraySort(I, I, R), I, z3.ArraySort(I, R), z3.ArraySort(I, I, R), B)
    return vbool(rel(arr, n, eng.arr_data(st, d), eng.arr_data(st, q)))


def sp_copyof(eng, node, st):
    """ghost snapshot of an array / list (fresh reference, same contents)"""
    v = eng.ev(node.args[0], st)
    if v.k[0] == 'arr':
        return eng.mk_arr(st, v.k[1], v.k[2], eng.arr_shape(st, v), eng.arr_data(st, v))
    if v.k[0] == 'list':
        return eng.mk_list(st, v.k[1], eng.list_len(st, v), eng.list_arr(st, v))
    raise ContractError("copyof() of %r" % (v.k,))


def sp_rows_of(eng, node, st):
    """rows_of(A, idx): the rows of the 2-D array A selected by the integer list idx (same model as A[idx, :])"""
    from . import models
    return models.gather_rows(eng, st, eng.ev(node.args[0], st), eng.ev(node.args[1], st), node)


def sp_cov(eng, node, st):
    """cov(M, biased): same uninterpreted function as np.cov(M, bias=biased)"""
    from . import models
    return models.np_cov(eng, st, [eng.ev(node.args[0], st)], {'bias': eng.ev(node.args[1], st)}, node)


def sp_colmean(eng, node, st):
    from . import models
    return models.np_mean(eng, st, [eng.ev(node.args[0], st)], {'axis': vint(0)}, node)


def sp_logdet(eng, node, st):
    """logdet(A): ln|det A| (the uninterpreted function np.linalg.slogdet(A)[1] is modelled by)"""
    v = eng.ev(node.args[0], st)
    f = eng.uf('logdet_uf', z3.ArraySort(I, I, R), I, R)
    return vreal(f(eng.arr_data(st, v), eng.arr_shape(st, v)[0]))


def sp_is_spd(eng, node, st):
    v = eng.ev(node.args[0], st)
    f = eng.uf('is_spd', z3.ArraySort(I, I, R), I, B)
    return vbool(f(eng.arr_data(st, v), eng.arr_shape(st, v)[0]))


def sp_task_theta(eng, node, st):
    """task_theta(t): the compressed Theta the worker of task t returns (a function of the task only)"""
    t = eng.ev(node.args[0], st)
    f = eng.uf('task_theta', I, z3.ArraySort(I, R))
    return Val(('arr', 1, 'real'), None, ('valarr', [z3.Int(fresh_name('theta_len'))], f(t.t)))


def sp_spd_task(eng, node, st):
    """spd_compressed_task(t, eps): abbreviation -- the floored re-inflation of task t's result is SPD"""
    t = eng.ev(node.args[0], st)
    eps = to_real(eng.ev(node.args[1], st))
    f = eng.uf('spec_spd_compressed', z3.ArraySort(I, R), R, B)
    th = eng.uf('task_theta', I, z3.ArraySort(I, R))
    return vbool(f(th(t.t), eps))


def sp_ln(eng, node, st):
    f = eng.uf('ln_uf', R, R)
    return vreal(f(to_real(eng.ev(node.args[0], st))))


def sp_pi(eng, node, st):
    return eng.const_pi(st)


def sp_isfinite(eng, node, st):
    """reals are always finite; kept so that the same clause text has its native (IEEE) reading"""
    eng.ev(node.args[0], st)
    return vbool(True)


def sp_count_above(eng, node, st):
    """count_above(A, t): number of entries of A whose magnitude exceeds t (same model as np.sum(np.abs(A) > t))"""
    from . import models
    a = eng.ev(node.args[0], st)
    t = eng.ev(node.args[1], st)
    ab = models.np_abs(eng, st, [a], {}, node)
    cmp = models.arr_compare(eng, st, ast.Gt(), ab, t, node)
    return models.np_sum(eng, st, [cmp], {}, node)


def sp_trace(eng, node, st):
    from . import models
    return models.np_trace(eng, st, [eng.ev(node.args[0], st)], {}, node)


def sp_idict(eng, node, st):
    """dict_get(d, k) / dict_has(d, k) on an int->int table"""
    d = eng.ev(node.args[0], st)
    k = to_int(eng.ev(node.args[1], st))
    if node.func.id == 'dict_has':
        return vbool(z3.Select(st.heap.rd('set:', d.t), k))
    return vint(z3.Select(st.heap.rd('el:int', d.t), k))


def sp_runsum(eng, node, st):
    """runsum(labels, lambda k: cp(k), i): sum of cp(label) over the first points of maximal runs among the first i labels
    (the first point always starts a run: the label before it is -1)"""
    from . import models
    labels = eng.ev(node.args[0], st)
    i = to_int(eng.ev(node.args[2], st))
    names, consts, saved = _bind_lambda(eng, node.args[1], st)
    try:
        body = eng.ev(node.args[1].body, st)
    finally:
        _unbind(st, saved)
    models._CUR[0] = st
    cp = models.lam(consts, to_int(body))
    la = eng.list_arr(st, labels)
    f = eng.uf('runsum', la.sort(), cp.sort(), I, I)
    key = 'axioms:runsum:%d:%d' % (la.get_id(), cp.get_id())
    if key not in st.ghost:
        st.ghost[key] = True
        m, n = z3.Int(fresh_name('rm')), z3.Int(fresh_name('rn'))
        prev = z3.If(m == 0, z3.IntVal(-1), z3.Select(la, m - 1))
        st.pc.append(f(la, cp, 0) == 0)
        body = z3.Implies(z3.And(n == m + 1, m >= 0),
                          f(la, cp, n) == f(la, cp, m) + z3.If(z3.Select(la, m) != prev, z3.Select(cp, z3.Select(la, m)), 0))
        st.pc.append(models.forall_p([m, n], body, [z3.MultiPattern(f(la, cp, m), f(la, cp, n))]))
    return vint(f(la, cp, i))


def sp_mean_all(eng, node, st):
    from . import models
    return models.np_mean(eng, st, [eng.ev(node.args[0], st)], {}, node)


def sp_row_offset(eng, node, st):
    """row_offset(A, s): first row of part s in the vertically stacked array A (ghost of np.vstack)"""
    a = eng.ev(node.args[0], st)
    s_ = to_int(eng.ev(node.args[1], st))
    return vint(eng.uf('row_offset', I, I, I)(a.t, s_))


def sp_chain_offset(eng, node, st):
    a = eng.ev(node.args[0], st)
    k = to_int(eng.ev(node.args[1], st))
    return vint(eng.uf('chain_offset', I, I, I)(a.t, k))


def sp_agg(eng, node, st):
    """mean_of(xs) / median_of(xs) / sum_of(xs): the same uninterpreted functions np.mean / np.median / np.sum are modelled by"""
    from . import models
    v = eng.ev(node.args[0], st)
    fn = {'mean_of': models.np_mean, 'median_of': models.np_median, 'sum_of': models.np_sum}[node.func.id]
    return fn(eng, st, [v], {}, node)


def sp_transpose(eng, node, st):
    from . import models
    return models.transpose(eng, st, eng.ev(node.args[0], st))


def sp_cnt_ext(eng, node, st):
    """cnt_ext(xs, ys): the instance of the counting lemma for these two lists (a formula, used under assume_lemmas)"""
    from . import models
    xs, ys = eng.ev(node.args[0], st), eng.ev(node.args[1], st)
    return vbool(models.cnt_ext_instance(eng, st, eng.list_arr(st, xs), eng.list_len(st, xs), eng.list_arr(st, ys), eng.list_len(st, ys)))


def sp_cnt(eng, node, st):
    """cnt(xs, k, p): number of q < p with xs[q] == k"""
    from . import models
    xs = eng.ev(node.args[0], st)
    k = to_int(eng.ev(node.args[1], st))
    p = to_int(eng.ev(node.args[2], st))
    a = eng.list_arr(st, xs)
    return vint(models.cnt(eng, st, a, eng.list_len(st, xs))(a, k, p))


SPEC_BUILTINS = dict(cnt=sp_cnt, cnt_ext=sp_cnt_ext, psum=sp_psum, rsum=sp_rsum, norm=sp_norm, norm2d=sp_norm2d, sqrt=sp_sqrt, matmul=sp_matmul, chain_offset=sp_chain_offset, mean_of=sp_agg, median_of=sp_agg, sum_of=sp_agg, row_offset=sp_row_offset, mean_all=sp_mean_all, count_above=sp_count_above, trace=sp_trace, dict_get=sp_idict, dict_has=sp_idict, runsum=sp_runsum, ln=sp_ln, pi=sp_pi, isfinite=sp_isfinite, task_theta=sp_task_theta, spd_compressed_task=sp_spd_task, logdet=sp_logdet, is_spd=sp_is_spd, copyof=sp_copyof, rows_of=sp_rows_of, cov=sp_cov, colmean=sp_colmean, transpose=sp_transpose, eigh_of=sp_eigh_of, forall=sp_forall, exists=sp_exists, implies=sp_implies, ite=sp_ite, old=sp_old,
                     fresh=sp_fresh, allocated=sp_allocated, in_set=sp_in_set, same=sp_same, unchanged=sp_unchanged, isnone=sp_isnone, real=sp_real,
                     eqcontent=sp_eqcontent, let=sp_let, alloc_now=sp_alloc)


def call_specfn(eng, fn, args, st):
    if fn.tree is not None and fn.uf:
        lam = fn.tree
        names = [a.arg for a in lam.args.args]
        argk, retk = fn.sig
        argk = [parse_kind(k) if isinstance(k, str) else k for k in argk]

        def data_sort(k):
            # array parameters of a spec function are passed by CONTENT (the pure array value), not by reference
            if isinstance(k, tuple) and k[0] == 'arr':
                es = R if k[2] == 'real' else (B if k[2] == 'bool' else I)
                return z3.ArraySort(*([I] * k[1] + [es]))
            return sort_of(k)
        f = eng.uf('spec_' + fn.name, *([data_sort(k) for k in argk] + [sort_of(retk)]))
        key = 'axioms:' + fn.name
        revealed = eng.frame is None or fn.name in (eng.frame.contract.ghost.get('reveal') or ())
        # opaque by default: the defining equation is available only to contracts that `reveal` the function
        if key not in st.ghost and revealed:
            st.ghost[key] = True
            bound = [z3.Const('%s_%s' % (fn.name, n), data_sort(k)) for n, k in zip(names, argk)]
            env = {}
            for n, k, b in zip(names, argk, bound):
                if isinstance(k, tuple) and k[0] == 'arr':
                    env[n] = Val(k, None, ('valarr', [z3.Int(fresh_name('%s_dim' % n)) for _ in range(k[1])], b))
                else:
                    env[n] = Val(k, b)
            ss = spec_state(st, env, None, {})
            body = eng.ev(lam.body, ss)
            bt = to_real(body) if retk == 'real' else body.t
            st.pc.append(z3.ForAll(bound, f(*bound) == bt, patterns=[f(*bound)]))
            for ax in fn.axioms:
                if 'derived-axioms-off' not in st.ghost:
                    st.pc.append(eval_bool(eng, ax, {}, st))
                    eng.assumed.add("derived axiom of spec function %s (proved in lemmas/): %s" % (fn.name, ax))
        ts = []
        for a, k in zip(args, argk):
            if isinstance(k, tuple) and k[0] == 'arr':
                ts.append(eng.arr_data(st, a))
            else:
                ts.append(to_real(a) if k == 'real' else a.t)
        return Val(retk, f(*ts))
    if fn.tree is not None:
        lam = fn.tree
        names = [a.arg for a in lam.args.args]
        if len(names) != len(args):
            raise ContractError("spec function %s arity" % fn.name)
        ss = spec_state(st, dict(zip(names, args)), st.old, {})
        return eng.ev(lam.body, ss)
    argk, retk = fn.sig
    argk = [parse_kind(k) for k in argk]
    ts, sorts = [], []
    for a, k in zip(args, argk):
        if isinstance(k, tuple) and k[0] == 'arr':
            d = eng.arr_data(st, a)
            ts.append(d)
            sorts.append(d.sort())
        else:
            ts.append(to_real(a) if k == 'real' else a.t)
            sorts.append(sort_of(k))
    f = eng.uf('spec_' + fn.name, *(sorts + [sort_of(retk)]))
    key = 'axioms:' + fn.name
    if key not in st.ghost:
        st.ghost[key] = True
        for ax in fn.axioms:
            st.pc.append(eval_bool(eng, ax, {}, st))
    return Val(retk, f(*ts))


# ---------------------------------------------------------------- generic call
def ev_call(eng, node, st):
    f = node.func
    if isinstance(f, ast.Name):
        if st.spec and f.id in SPEC_BUILTINS:
            return SPEC_BUILTINS[f.id](eng, node, st)
        if st.spec and f.id in S.SPECFNS:
            return call_specfn(eng, S.SPECFNS[f.id], [eng.ev(a, st) for a in node.args], st)
    args = []
    if isinstance(f, ast.Name) and f.id == 'isinstance' and 'isinstance' not in st.env:
        return eng.models['builtins.isinstance'](eng, st, [eng.ev(node.args[0], st)], {}, node)
    tgt0 = eng.resolve_callable(f, st)
    if tgt0 == ('model', 'random.sample'):
        return eng.models['random.sample'](eng, st, [None] + [eng.ev(a, st) for a in node.args[1:]], {}, node)
    for a in node.args:
        if isinstance(a, ast.Starred):
            v = eng.ev(a.value, st)
            args.append(Val(('starred',), None, v))
        else:
            args.append(eng.ev(a, st))
    kwargs = {}
    for kw in node.keywords:
        if kw.arg is None:
            raise Unsupported("**kwargs call at line %d" % node.lineno)
        kwargs[kw.arg] = eng.ev(kw.value, st)
    target = eng.resolve_callable(f, st)
    if target is not None:
        kind, name = target
        if kind == 'model':
            if name in eng.models:
                return eng.models[name](eng, st, args, kwargs, node)
            raise Unsupported("no model for library call %s (line %d)" % (name, node.lineno))
        if kind == 'contract':
            return call_repo(eng, name, args, kwargs, st, node)
        if kind == 'local':
            return call_funcval(eng, name, args, kwargs, st, node)
    # method call / callable value
    if isinstance(f, ast.Attribute):
        base = eng.ev(f.value, st)
        return call_method(eng, base, f.attr, args, kwargs, st, node)
    fv = eng.ev(f, st)
    return call_funcval(eng, fv, args, kwargs, st, node)


def call_funcval(eng, fv, args, kwargs, st, node):
    if fv.k != 'func':
        if isinstance(fv.k, tuple) and fv.k[0] == 'opaque':
            from . import models
            return models.call_opaque(eng, st, fv, args, kwargs, node)
        raise Unsupported("call of non-function value")
    tag = fv.py[0]
    if tag == 'lambda':
        _, lam, env, senv = fv.py
        names = [a.arg for a in lam.args.args]
        ss = st.copy() if not st.spec else spec_state(st, env, st.old, senv)
        if not st.spec:
            raise Unsupported("lambda call in code")
        ss.env.update(dict(zip(names, args)))
        return eng.ev(lam.body, ss)
    if tag == 'closure':
        _, fdef, env = fv.py
        return inline_body(eng, eng.frame.mod, fdef, args, kwargs, st, node, closure_env=env)
    if tag == 'bound':
        return call_repo(eng, fv.py[1], [fv.py[2]] + args, kwargs, st, node)
    if tag == 'named':
        t = eng.resolve_callable(fv.py[1], st)
        if t and t[0] == 'contract':
            return call_repo(eng, t[1], args, kwargs, st, node)
        if t and t[0] == 'model' and t[1] in eng.models:
            return eng.models[t[1]](eng, st, args, kwargs, node)
    raise Unsupported("call of function value %r" % (tag,))


def call_method(eng, base, name, args, kwargs, st, node):
    k = base.k
    if isinstance(k, tuple) and k[0] == 'obj' and k[1] == 'AsyncTask' and name == 'get':
        from . import models
        return models.task_get(eng, st, base, node)
    if isinstance(k, tuple) and k[0] == 'obj':
        sch = S.CLASSES.get(k[1])
        if sch is None:
            raise ContractError("no schema for class " + k[1])
        if name in sch.fields:
            return call_funcval(eng, eng.get_attr(st, base, name, node), args, kwargs, st, node)
        return call_repo(eng, sch.qualname + '.' + name, [base] + args, kwargs, st, node)
    head = k[0] if isinstance(k, tuple) else k
    m = eng.methods.get((head, name))
    if m is None and head == 'opaque':
        m = eng.methods.get(('opaque:' + k[1].split(':')[0], name))
    if m is None:
        raise Unsupported("method %s on %r (line %d)" % (name, k, node.lineno))
    return m(eng, st, base, args, kwargs, node)


# ---------------------------------------------------------------- repository calls
def bind_params(eng, mod, fdef, args, kwargs, st, skip_self=False):
    a = fdef.args
    if a.vararg or a.kwarg:
        raise Unsupported("*args/**kwargs in %s" % fdef.name)
    names = [x.arg for x in a.posonlyargs + a.args]
    defaults = dict(zip(names[len(names) - len(a.defaults):], a.defaults))
    for x, d in zip(a.kwonlyargs, a.kw_defaults):
        names.append(x.arg)
        if d is not None:
            defaults[x.arg] = d
    env = {}
    pos = list(args)
    for n in names:
        if pos:
            env[n] = pos.pop(0)
        elif n in kwargs:
            env[n] = kwargs[n]
        elif n in defaults:
            env[n] = eng.ev_Constant(defaults[n], st) if isinstance(defaults[n], ast.Constant) else None
            if env[n] is None:
                raise Unsupported("non-constant default")
        else:
            raise ContractError("missing argument %s in call to %s" % (n, fdef.name))
    extra = set(kwargs) - set(names)
    if pos or extra:
        raise ContractError("bad call to %s: extra args %s" % (fdef.name, extra))
    return env


def coerce(eng, st, v, kind, what):
    """actual -> declared parameter kind (int->real widening, None for optional refs)."""
    if v.k == kind or kind is None:
        return v
    if kind == 'real' and v.k in ('int', 'bool'):
        return vreal(to_real(v))
    if kind == 'int' and v.k == 'bool':
        return vint(to_int(v))
    if is_ref_kind(kind) and v.k == 'none':
        return Val(kind, z3.IntVal(0))
    if kind == 'real' and v.k == 'none':
        # Optional[float] fields: None is modelled as an unspecified real (documented assumption)
        eng.assumed.add("None stored in a float-typed field is modelled as an unspecified real")
        return vreal(z3.Real(fresh_name('none_as_real')))
    if is_ref_kind(kind) and is_ref_kind(v.k) and kind[0] == v.k[0]:
        if kind[0] == 'list' and elem_tag(kind[1]) == elem_tag(v.k[1]):
            return Val(kind, v.t)
        if kind[0] == 'list' and v.k == ('list', 'int') and v.t is not None:
            n = z3.simplify(st.heap.rd('len', v.t))
            if z3.is_int_value(n) and n.as_long() == 0:
                return Val(kind, v.t)       # the empty list literal [] has no element kind of its own
        if kind[0] == 'arr' and kind[1] == v.k[1] and elem_tag(kind[2]) == elem_tag(v.k[2]):
            return Val(kind, v.t)
        if kind[0] == 'opaque':
            return Val(kind, v.t)
    if kind == 'any':
        return v
    if isinstance(v.k, tuple) and v.k[0] == 'stack' and isinstance(kind, tuple) and kind[0] == 'list' and kind[1] == v.k[1]:
        return Val(kind, v.t)       # stacked arrays are modelled as the list they were built from
    if isinstance(kind, tuple) and kind[0] == 'tuple' and isinstance(v.k, tuple) and v.k[0] == 'tuple' \
            and len(kind[1]) == len(v.k[1]):
        return v
    raise ContractError("kind mismatch for %s: declared %r, actual %r" % (what, kind, v.k))


def call_repo(eng, qualname, args, kwargs, st, node):
    # class constructor?
    parts = qualname.rsplit('.', 1)
    cname = parts[-1]
    if cname in S.CLASSES and S.CLASSES[cname].qualname == qualname:
        return construct(eng, cname, args, kwargs, st, node)
    c = S.CONTRACTS.get(qualname)
    mod, fdef = eng.repo.find_function(qualname)
    # a variant of the caller (e.g. '#arrays') selects the same variant of the callee when it exists
    cur = eng.frame.qualname if eng.frame else ''
    if '#' in cur and (qualname + '#' + cur.split('#', 1)[1]) in S.CONTRACTS:
        c = S.CONTRACTS[qualname + '#' + cur.split('#', 1)[1]]
    if c is None:
        # contract variants (same function, different parameter kinds): pick the one the actuals fit
        for vq, vc in S.CONTRACTS.items():
            if vq.startswith(qualname + '#'):
                try:
                    env = bind_params(eng, mod, fdef, args, kwargs, st)
                    for n, kind in vc.params.items():
                        if is_ref_kind(kind) != is_ref_kind(env[n].k) and env[n].k != 'none':
                            raise ContractError('kind')
                        if kind == 'real' and env[n].k == 'int' and any(
                                o.params.get(n) == 'int' for oq, o in S.CONTRACTS.items() if oq.startswith(qualname + '#')):
                            raise ContractError('kind')
                        coerce(eng, st, env[n], kind, n)
                    c = vc
                    break
                except ContractError:
                    continue
    if c is None:
        if _tiny_pure_helper(fdef) and not any(vq.startswith(qualname + '#') for vq in S.CONTRACTS):
            # a small helper extracted by a maintainer (straight-line, no loops, no stores through references): executed in
            # place, exactly as if its body still stood at the call site
            eng.assumed.add("helper %s has no contract: its straight-line body is inlined at the call site" % qualname)
            return inline_body(eng, mod, fdef, args, kwargs, st, node)
        raise ContractError("call to %s which has no (matching) contract" % qualname)
    if c.inline:
        return inline_body(eng, mod, fdef, args, kwargs, st, node)
    return apply_contract(eng, c, mod, fdef, args, kwargs, st, node)


def _tiny_pure_helper(fdef):
    """straight-line function: (docstring,) simple assignments to local names, (conditional) returns of expressions"""
    body = list(fdef.body)
    if body and isinstance(body[0], ast.Expr) and isinstance(body[0].value, ast.Constant) and isinstance(body[0].value.value, str):
        body = body[1:]
    if not body or len(body) > 8 or fdef.decorator_list:
        return False

    def simple(stmts):
        for s in stmts:
            if isinstance(s, ast.Return):
                continue
            if isinstance(s, (ast.Assign, ast.AnnAssign)):
                tg = s.targets if isinstance(s, ast.Assign) else [s.target]
                if all(isinstance(t, ast.Name) for t in tg):
                    continue
                return False
            if isinstance(s, ast.If) and simple(s.body) and simple(s.orelse):
                continue
            return False
        return True
    return simple(body) and not any(isinstance(n, (ast.For, ast.While, ast.Try, ast.With, ast.Global, ast.Nonlocal, ast.Lambda,
                                                   ast.Yield, ast.YieldFrom, ast.Await)) for n in ast.walk(fdef))


def construct(eng, cname, args, kwargs, st, node):
    sch = S.CLASSES[cname]
    r = eng.new_ref(st)
    obj = Val(('obj', cname), r)
    modq = sch.qualname.rsplit('.', 1)[0]
    mod = eng.repo.module(modq)
    init = mod.functions.get(cname + '.__init__')
    if init is not None:
        c = S.CONTRACTS.get(sch.qualname + '.__init__')
        if c is None:
            raise ContractError("no contract for %s.__init__" % cname)
        if c.inline:
            inline_body(eng, mod, init, [obj] + args, kwargs, st, node)
        else:
            apply_contract(eng, c, mod, init, [obj] + args, kwargs, st, node)
        return obj
    # dataclass: fields in declaration order from the class body
    cdef = mod.classes[cname]
    names = [s.target.id for s in cdef.body if isinstance(s, ast.AnnAssign) and isinstance(s.target, ast.Name)]
    pos = list(args)
    for n in names:
        if pos:
            v = pos.pop(0)
        elif n in kwargs:
            v = kwargs[n]
        else:
            raise ContractError("dataclass %s: missing field %s" % (cname, n))
        key, fk = eng.field_key(cname, n)
        v = coerce(eng, st, v, fk, cname + '.' + n)
        st.heap.wr(key, r, v.t)
    if pos or set(kwargs) - set(names):
        raise ContractError("dataclass %s: unexpected arguments" % cname)
    return obj


def havoc_target(eng, st, tgt):
    """tgt: ('ref', Val) | ('field', Val, fieldname)"""
    if tgt[0] == 'ref':
        v = tgt[1]
        k = v.k
        if k[0] == 'list':
            n = z3.Int(fresh_name('hlen'))
            st.assume(n >= 0)
            st.heap.wr('len', v.t, n)
            key = 'el:' + elem_tag(k[1])
            st.heap.wr(key, v.t, z3.Const(fresh_name('hel'), st.heap._sort(key).range()))
        elif k[0] == 'arr':
            key = 'd%d:%s' % (k[1], elem_tag(k[2]))
            st.heap.wr(key, v.t, z3.Const(fresh_name('hdat'), st.heap._sort(key).range()))
        elif k[0] == 'obj':
            sch = S.CLASSES[k[1]]
            for f, fk in sch.fields.items():
                key = 'f:%s.%s:%s' % (k[1], f, elem_tag(fk))
                st.heap.wr(key, v.t, z3.Const(fresh_name('hf_' + f), sort_of(fk)))
        elif k[0] == 'set':
            st.heap.wr('set:', v.t, z3.Const(fresh_name('hset'), z3.ArraySort(I, B)))
            n = z3.Int(fresh_name('hcard'))
            st.assume(n >= 0)
            st.heap.wr('len', v.t, n)
        elif k[0] == 'idict':
            st.heap.wr('set:', v.t, z3.Const(fresh_name('hkeys'), z3.ArraySort(I, B)))
            st.heap.wr('el:int', v.t, z3.Const(fresh_name('hvals'), z3.ArraySort(I, I)))
        elif k[0] == 'ddict':
            st.heap.wr('el:ref', v.t, z3.Const(fresh_name('hdd'), z3.ArraySort(I, I)))
        elif k[0] == 'pdict':
            # the value lists of the dict (a block of references) may have been appended to
            b0, n = v.py
            r = z3.Int(fresh_name('r'))
            from . import models
            models._CUR[0] = st
            ol, oe = st.heap.get('len'), st.heap.get('el:int')
            nl = z3.Const(fresh_name('hlen'), ol.sort())
            ne = z3.Const(fresh_name('hel'), oe.sort())
            inb = z3.And(b0 <= r, r < b0 + n)
            st.assume(z3.ForAll([r], z3.And(z3.Implies(z3.Not(inb), z3.And(z3.Select(nl, r) == z3.Select(ol, r),
                                                                           z3.Select(ne, r) == z3.Select(oe, r))),
                                            z3.Select(nl, r) >= 0)))
            st.heap.set('len', nl)
            st.heap.set('el:int', ne)
        else:
            raise ContractError("cannot havoc %r" % (k,))
    elif tgt[0] == 'eachlist':
        # contents (length and elements) of every list held in a list of lists
        lst = tgt[1]
        ek = lst.k[1][1]
        n = eng.list_len(st, lst)
        la = eng.list_arr(st, lst)
        r = z3.Int(fresh_name('r'))
        w = z3.Function(fresh_name('eachlist_w'), I, I)
        hit = z3.And(0 <= w(r), w(r) < n, z3.Select(la, w(r)) == r)
        for key in ('len', 'el:' + elem_tag(ek)):
            old = st.heap.get(key)
            new = z3.Const(fresh_name('h_' + key.replace(':', '_')), old.sort())
            st.assume(z3.ForAll([r], z3.Or(hit, z3.Select(new, r) == z3.Select(old, r)), patterns=[z3.Select(new, r)]))
            if key == 'len':
                st.assume(z3.ForAll([r], z3.Select(new, r) >= 0, patterns=[z3.Select(new, r)]))
            st.heap.set(key, new)
    elif tgt[0] == 'each':
        # field `f` of every object in a list: fresh field map that agrees with the old one off the list
        lst, cls, f = tgt[1], tgt[2], tgt[3]
        key, fk = eng.field_key(cls, f)
        old = st.heap.get(key)
        new = z3.Const(fresh_name('hfm_' + f), old.sort())
        n = eng.list_len(st, lst)
        la = eng.list_arr(st, lst)
        r, q = z3.Int(fresh_name('r')), z3.Int(fresh_name('q'))
        w = z3.Function(fresh_name('each_w'), I, I)
        st.assume(z3.ForAll([r], z3.Or(z3.And(0 <= w(r), w(r) < n, z3.Select(la, w(r)) == r),
                                       z3.Select(new, r) == z3.Select(old, r)), patterns=[z3.Select(new, r)]))
        st.heap.set(key, new)
    else:
        v, f = tgt[1], tgt[2]
        key, fk = eng.field_key(v.k[1], f)
        st.heap.wr(key, v.t, z3.Const(fresh_name('hf_' + f), sort_of(fk)))


def eval_assign_targets(eng, clauses, env, st):
    """assigns clauses -> list of ('ref', Val) / ('field', Val, name)."""
    out = []
    for src in clauses:
        mm = re.match(r'^(.*)\[\*\]\.(\w+)$', src.strip())
        if mm:
            lst = eval_clause(eng, mm.group(1), env, st)
            if not (isinstance(lst.k, tuple) and lst.k[0] == 'list' and isinstance(lst.k[1], tuple) and lst.k[1][0] == 'obj'):
                raise ContractError("assigns %r: not a list of objects" % src)
            out.append(('each', lst, lst.k[1][1], mm.group(2)))
            continue
        mm2 = re.match(r'^(.*)\[\*\]$', src.strip())
        if mm2:
            lst = eval_clause(eng, mm2.group(1), env, st)
            if not (isinstance(lst.k, tuple) and lst.k[0] == 'list' and isinstance(lst.k[1], tuple) and lst.k[1][0] == 'list'):
                raise ContractError("assigns %r: not a list of lists" % src)
            out.append(('eachlist', lst))
            continue
        if src.startswith('ref:'):      # the object a field refers to, not the field itself
            v = eval_clause(eng, src[4:], env, st)
            if not is_ref_kind(v.k):
                raise ContractError("assigns target %r is not a reference" % src)
            out.append(('ref', v))
            continue
        node = parse_clause(src)
        if isinstance(node, ast.Attribute):
            basev = eng.ev(node.value, spec_state(st, env))
            if isinstance(basev.k, tuple) and basev.k[0] == 'obj' and node.attr in S.CLASSES[basev.k[1]].fields \
                    and not src.endswith('.*'):
                out.append(('field', basev, node.attr))
                continue
        v = eval_clause(eng, src, env, st)
        if not is_ref_kind(v.k):
            raise ContractError("assigns target %r is not a reference" % src)
        out.append(('ref', v))
    return out


def target_key(eng, tgt):
    if tgt[0] == 'field':
        return eng.field_key(tgt[1].k[1], tgt[2])[0]
    if tgt[0] == 'each':
        return eng.field_key(tgt[2], tgt[3])[0]
    return None


def fresh_of_kind(eng, st, kind, base='res'):
    if isinstance(kind, tuple) and kind[0] == 'tuple':
        return vtuple([fresh_of_kind(eng, st, k, base) for k in kind[1]])
    if kind == 'none':
        return NONE
    if kind == 'str':
        return Val('str', None, '<str>')
    v = eng.fresh(kind, base)
    if is_ref_kind(kind):
        st.assume(z3.And(v.t >= 0, v.t < st.heap.alloc))
    return v


def apply_contract(eng, c, mod, fdef, args, kwargs, st, node):
    if st.spec:
        raise ContractError("code call inside spec expression")
    env = bind_params(eng, mod, fdef, args, kwargs, st)
    for n, kind in c.params.items():
        if n not in env:
            raise ContractError("contract %s names unknown parameter %s" % (c.qualname, n))
        env[n] = coerce(eng, st, env[n], kind, c.qualname + ':' + n)
    line = getattr(node, 'lineno', 0)
    short = c.qualname.rsplit('.', 1)[-1]
    if c.trusted:
        eng.assumed.add("assumed contract: " + c.qualname)
    for label, clause in c.labelled(c.requires, 'pre'):
        t = eval_bool(eng, clause, env, st)
        if label.startswith('restricts:'):
            # the callee is verified only under this restriction; the property itself is stated for exactly these runs
            eng.assumed.add("restriction assumed at call of %s: %s" % (c.qualname, label))
        elif label.startswith('completes:'):
            # the callee itself stops the run (assert) when this fails: outside "runs that complete"
            eng.assumed.add("run-completes assumption at call of %s: %s" % (c.qualname, label))
        else:
            eng.oblige(st, "pre@call:%s:%s@L%d" % (short, label, line), 'pre@call', t, node)
        st.assume(t)
    for exc, cond in c.raises.items():
        if cond is None:
            # unspecified raising condition: an arbitrary (uninterpreted) condition of the pre-state
            t = z3.Bool(fresh_name('may_raise_' + exc))
        else:
            t = eval_bool(eng, cond, env, st)
        if exc in eng.frame.exc_ok or any(exc in h for h in eng.frame.try_handlers):
            st.pending_raises.append((t, exc, len(st.pc)))
        else:
            eng.oblige(st, "noexc:%s:%s@L%d" % (short, exc, line), 'noexc', z3.Not(t), node)
        st.assume(z3.Not(t))
    old_heap = st.heap.copy()
    targets = eval_assign_targets(eng, c.assigns, env, st)
    for tgt in targets:
        if tgt[0] == 'each':
            q = z3.Int(fresh_name('q'))
            sub = st.copy()
            sub.assume(z3.And(0 <= q, q < eng.list_len(st, tgt[1])))
            eng.check_store(sub, z3.Select(eng.list_arr(st, tgt[1]), q), target_key(eng, tgt), node, 'call:' + short)
        else:
            eng.check_store(st, tgt[1].t, target_key(eng, tgt), node, 'call:' + short)
    if c.allocates:
        na = z3.Int(fresh_name('alloc'))
        st.assume(na >= st.heap.alloc)
        st.heap.new_epoch(na)
    for tgt in targets:
        havoc_target(eng, st, tgt)
    result = fresh_of_kind(eng, st, c.returns, 'res_' + short) if c.returns is not None else NONE
    env2 = dict(env)
    env2['result'] = result
    # the callee's own ghost flags, seen from a normal return of the callee
    env2.setdefault('_any_task_failed', vbool(False))
    for gn in ('_pool_created', '_pool_closed', '_pool_joined'):
        env2.setdefault(gn, vbool(z3.Bool(fresh_name(gn))))
    for gname, gk in (c.ghost.get('return_kinds') or {}).items():
        env2[gname] = fresh_of_kind(eng, st, parse_kind(gk), 'ghost_' + gname)
        # ghost out-parameters of the callee are visible to the caller's contract clauses as ghost_<callee>_<name>
        st.env['ghost_%s_%s' % (short.split('#')[0], gname)] = env2[gname]
    for label, clause in c.labelled(c.ensures, 'post'):
        t = eval_bool(eng, clause, env2, st, old=(env, old_heap))
        st.assume(t)
    # ghost flags of the caller that this call sets (resource protocol, e.g. a pool has been created)
    for gname, gclause in (c.ghost.get('sets') or {}).items():
        st.env[gname] = eval_clause(eng, gclause, env2, st, old=(env, old_heap))
    return result


def inline_body(eng, mod, fdef, args, kwargs, st, node, closure_env=None):
    """Execute a (straight-line) callee body in place.  Not modular; reported as inlined."""
    if st.spec:
        raise ContractError("code call inside spec expression")
    env = bind_params(eng, mod, fdef, args, kwargs, st)
    if closure_env:
        for k, v in closure_env.items():
            env.setdefault(k, v)
    saved_env, saved_mod = st.env, eng.frame.mod
    st.env = env
    eng.frame.mod = mod
    eng.frame.inline_depth = getattr(eng.frame, 'inline_depth', 0) + 1
    if not hasattr(eng.frame, 'inlined_shas'):
        eng.frame.inlined_shas = set()
    eng.frame.inlined_shas.add(mod.sha(fdef))       # the caller's obligations depend on this text too
    if not hasattr(eng.frame, 'inlined_ast_shas'):
        eng.frame.inlined_ast_shas = set()
    eng.frame.inlined_ast_shas.add(mod.ast_sha(fdef))
    try:
        from . import stmts
        outs = stmts.exec_block(eng, fdef.body, st)
    finally:
        eng.frame.mod = saved_mod
        eng.frame.inline_depth -= 1
    live = [(o, s) for (o, s) in outs]
    if len(live) != 1 or live[0][1] is not st:
        raise Unsupported("inlined function %s is not single-path" % fdef.name)
    o = live[0][0]
    st.env = saved_env
    if o[0] == 'return':
        return o[1]
    if o[0] == 'normal':
        return NONE
    raise Unsupported("inlined function %s ends with %s" % (fdef.name, o[0]))
