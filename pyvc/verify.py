"""Per-function driver: real body + contract -> obligations."""
import ast
import z3

from .core import (Val, NONE, vint, vreal, vbool, vtuple, to_real, to_int, truth, State, Unsupported,
                   ContractError, fresh_name, sort_of, is_ref_kind, parse_kind)
from . import spec as S
from .engine import Engine, Frame
from . import calls, stmts
from .calls import eval_bool, coerce


def param_names(fdef):
    a = fdef.args
    if a.vararg or a.kwarg:
        raise Unsupported("*args/**kwargs in %s" % fdef.name)
    return [x.arg for x in a.posonlyargs + a.args + a.kwonlyargs]


def make_param(eng, st, name, kind, nullable):
    if isinstance(kind, tuple) and kind[0] == 'tuple':
        return vtuple([make_param(eng, st, "%s_%d" % (name, n), k, nullable) for n, k in enumerate(kind[1])])
    if kind == 'none':
        return NONE
    v = Val(kind, z3.Const(name, sort_of(kind)))
    if is_ref_kind(kind):
        lo = 0 if nullable else 1
        st.assume(z3.And(v.t >= lo, v.t < st.heap.alloc))
        if not nullable:
            st.heap.note_pre(v.t)
    return v


def verify_function(eng, qualname):
    """Symbolically executes the real body of `qualname` against its contract.
    Returns dict(obligations=[...], sha=..., lines=...).  Raises Unsupported/ContractError."""
    c = S.CONTRACTS.get(qualname)
    if c is None:
        raise ContractError("no contract for " + qualname)
    mod, fdef = eng.repo.find_function(qualname)
    from . import rename
    cur_locals = rename.local_names(fdef)
    ref_locals = (getattr(eng, 'ref_locals', None) or {}).get(qualname)
    if ref_locals and ref_locals != cur_locals:
        ren = rename.mapping(ref_locals, cur_locals, (getattr(eng, 'ref_loopvars', None) or {}).get(qualname), rename.loop_targets(fdef))
        if ren:
            c = rename.adapt(c, ren)
            eng.assumed.add("locals of %s renamed since the reference tree; loop contracts re-targeted: %s" % (
                qualname, ', '.join('%s->%s' % kv for kv in sorted(ren.items()))))
    f = Frame(mod, fdef, c, qualname)
    eng.frame = f
    n0 = len(eng.obls)
    st = State()
    st.assume(st.heap.alloc >= 1)
    names = param_names(fdef)
    for n in c.params:
        if n not in names:
            raise ContractError("%s: contract parameter %s not in signature %s" % (qualname, n, names))
    nullable = set(c.ghost.get('nullable', ()))
    params = dict(c.params)
    for a in fdef.args.args + fdef.args.kwonlyargs:
        # a parameter the contract does not know yet: plain data with an annotation keeps the function verifiable
        if a.arg not in params and isinstance(a.annotation, ast.Name) and a.annotation.id in ('bool', 'int', 'float'):
            params[a.arg] = {'bool': 'bool', 'int': 'int', 'float': 'real'}[a.annotation.id]
            eng.assumed.add("parameter %s of %s is not in the contract: kind read from its annotation" % (a.arg, qualname))
    for n in names:
        if n not in params:
            raise ContractError("%s: parameter %s has no declared kind" % (qualname, n))
        st.env[n] = make_param(eng, st, n, params[n], n in nullable)
    st.env['_any_task_failed'] = vbool(False)       # ghost: set on paths on which a worker failure was observed
    f.entry_env = dict(st.env)
    f.entry_heap = st.heap.copy()
    old = (f.entry_env, f.entry_heap)
    for label, clause in c.labelled(c.requires, 'pre'):
        st.assume(eval_bool(eng, clause, st.env, st))
    # axioms: closed lemmas over the spec vocabulary; proved here WITHOUT the precondition, then assumed
    for label, clause in c.labelled(c.axioms, 'axiom'):
        t = eval_bool(eng, clause, st.env, st)
        blank = State()
        blank.pc = [p for p in st.pc if z3.is_quantifier(p)]     # definitional axioms of the spec functions only
        eng.obls.append(__import__('pyvc.core', fromlist=['Obligation']).Obligation(
            "%s:%s" % (qualname.replace('fast_ticc.', ''), 'lemma:' + label), 'lemma', qualname, fdef.lineno,
            blank.pc, t, [], c.props, False, []))
        st.assume(t)
    # vacuity guard: the precondition must be satisfiable
    eng.oblige(st, "cover:requires", 'cover', z3.BoolVal(False), fdef, expect_sat=True)
    for tgt in calls.eval_assign_targets(eng, c.assigns, st.env, st):
        f.assign_refs.append(frame_entry(eng, st, tgt))
    outs = stmts.exec_block(eng, fdef.body, st)
    nret = 0
    for (o, s) in outs:
        if o[0] in ('normal', 'return'):
            nret += 1
            res = o[1] if o[0] == 'return' else NONE
            if c.returns is not None:
                res = coerce(eng, s, res, c.returns, qualname + ':result')
            env = dict(f.entry_env)
            env['result'] = res
            for gn in ('_any_task_failed', '_pool_created', '_pool_closed', '_pool_joined'):
                if gn in s.env:
                    env[gn] = s.env[gn]
            # ghost out-parameters: locals exposed to the postcondition under another name
            for gname, local in (c.ghost.get('returns') or {}).items():
                if local not in s.env:
                    raise ContractError("%s: ghost return %s: no local named %s at return" % (qualname, gname, local))
                env[gname] = s.env[local]
            # vacuity canary: the hypotheses accumulated on (at least one) return path must be satisfiable
            if not any(str(cnd).strip() == 'True' for cnd in c.raises.values()):   # a contract that always raises never returns
                eng.oblige(s, "cover:return", 'cover', z3.BoolVal(False), fdef, expect_sat=True)
            for label, clause in c.labelled(c.ensures, 'post'):
                t = eval_bool(eng, clause, env, s, old=old)
                if label.startswith('def:'):
                    # definitional clause: introduces a spec predicate as an abbreviation for a fact about this result
                    eng.assumed.add("definitional clause %s of %s" % (label, qualname))
                else:
                    eng.oblige(s, "post:%s" % label, 'post', t, fdef)
                if c.ghost.get('cumulative_posts') or label.startswith('def:'):
                    s.assume(t)     # later clauses may use earlier ones (each is an obligation of its own)
            for exc, cond in c.raises.items():
                if cond is None:        # may raise; the exact condition is not part of the contract
                    continue
                t = eval_bool(eng, cond, f.entry_env, s_with_heap(s, f.entry_heap))
                eng.oblige(s, "xpost:returns-only-if-not:%s" % exc, 'xpost', z3.Not(t), fdef)
        elif o[0] == 'raise':
            exc = o[1]
            if exc in c.raises:
                if c.raises[exc] is not None:
                    t = eval_bool(eng, c.raises[exc], f.entry_env, s_with_heap(s, f.entry_heap))
                    eng.oblige(s, "xpost:%s:only-when" % exc, 'xpost', t, fdef)
                for label, clause in c.labelled(c.ghost.get('xensures', {}).get(exc, []), 'xens'):
                    env = dict(f.entry_env)
                    for gn in ('_any_task_failed', '_pool_created', '_pool_closed', '_pool_joined'):
                        if gn in s.env:
                            env[gn] = s.env[gn]
                    t2 = eval_bool(eng, clause, env, s, old=old)
                    eng.oblige(s, "xpost:%s:%s" % (exc, label), 'xpost', t2, fdef)
            else:
                eng.oblige(s, "noexc:%s" % exc, 'noexc', z3.BoolVal(False), fdef)
        else:
            raise Unsupported("%s outside a loop" % o[0])
    obls = eng.obls[n0:]
    import hashlib
    deps = sorted(getattr(f, 'inlined_shas', ()))
    sha = mod.sha(fdef) if not deps else hashlib.sha256((mod.sha(fdef) + ''.join(deps)).encode()).hexdigest()[:16]
    adeps = sorted(getattr(f, 'inlined_ast_shas', ()))
    ast_sha = hashlib.sha256((mod.ast_sha(fdef) + ''.join(adeps)).encode()).hexdigest()[:16]
    return dict(obligations=obls, sha=sha, ast_sha=ast_sha, locals=cur_locals, loopvars=rename.loop_targets(fdef), entry=(f.entry_env, f.entry_heap), lines=(fdef.lineno, fdef.end_lineno), paths=len(outs),
                file=mod.path)


def frame_entry(eng, st, tgt):
    if tgt[0] == 'ref' and isinstance(tgt[1].k, tuple) and tgt[1].k[0] == 'pdict':
        return ('block', tgt[1].py[0], tgt[1].py[1])
    if tgt[0] == 'ref':
        return ('ref', tgt[1].t)
    if tgt[0] == 'each':
        return ('each', eng.list_len(st, tgt[1]), eng.list_arr(st, tgt[1]), calls.target_key(eng, tgt))
    if tgt[0] == 'eachlist':
        return ('eachlist', eng.list_len(st, tgt[1]), eng.list_arr(st, tgt[1]))
    return ('field', tgt[1].t, calls.target_key(eng, tgt))


def s_with_heap(s, heap):
    """view of state s reading the entry heap (for clauses over the pre-state)"""
    v = State.__new__(State)
    v.__dict__.update(s.__dict__)
    v.heap = heap
    return v
