"""ASSUMED contracts of the Python builtins / stdlib / numpy calls that the functions under
contract use.  Every model registers the assumption it stands for (copied into evidence)."""
import ast
import z3

from .core import (Val, NONE, vint, vreal, vbool, vtuple, to_real, to_int, truth, Unsupported,
                   ContractError, fresh_name, sort_of, elem_tag, is_ref_kind, I, R, B, ValSort)

MODELS = {}
METHODS = {}


def model(*names, note=None):
    def deco(fn):
        for n in names:
            MODELS[n] = fn
        fn.note = note or names[0]
        return fn
    return deco


def method(head, name):
    def deco(fn):
        METHODS[(head, name)] = fn
        return fn
    return deco


def used(eng, what):
    eng.assumed.add("library model: " + what)


_CUR = [None]           # state in which array definitions are recorded (set by Engine.ev)
LAMBDA_MODE = [False]   # True: z3 Lambda terms; False: fresh array constant + pointwise defining axiom


def forall_p(vars_, body, pats):
    """ForAll with explicit patterns when z3 accepts them (patterns may not contain lambdas/ites)"""
    try:
        return z3.ForAll(vars_, body, patterns=pats)
    except z3.Z3Exception:
        return z3.ForAll(vars_, body)


def lam(vars_, body):
    """array defined pointwise: A[vars] == body"""
    if LAMBDA_MODE[0] or _CUR[0] is None:
        return z3.Lambda(vars_, body)
    srt = z3.ArraySort(*([v.sort() for v in vars_] + [body.sort()]))
    a = z3.Const(fresh_name('arr'), srt)
    sel = z3.Select(a, *vars_)
    _CUR[0].pc.append(z3.ForAll(vars_, sel == body, patterns=[sel]))
    return a


def named_array(eng, ufname, args, vars_, body_fn):
    """array given as an uninterpreted-function term f(args) plus the pointwise defining axiom of this instance:
    two constructions from equal arguments are equal by congruence (no extensionality reasoning needed)."""
    body = body_fn(*vars_)
    srt = z3.ArraySort(*([v.sort() for v in vars_] + [body.sort()]))
    f = eng.uf(ufname, *([a.sort() for a in args] + [srt]))
    t = f(*args)
    st = _CUR[0]
    key = 'named:%s:%s' % (ufname, ','.join(str(a.get_id()) for a in args))
    if st is not None and key not in st.ghost:
        st.ghost[key] = True
        sel = z3.Select(t, *vars_)
        st.pc.append(forall_p(list(vars_), sel == body, [sel]))
    return t


def zsort(ek):
    return sort_of(ek)


def zero_of(ek):
    if ek == 'int' or is_ref_kind(ek):
        return z3.IntVal(0)
    if ek == 'real':
        return z3.RealVal(0)
    if ek == 'bool':
        return z3.BoolVal(False)
    raise Unsupported("no zero for kind %r" % (ek,))


def num_term(v, ek):
    if ek == 'real':
        return to_real(v)
    if ek == 'int':
        return to_int(v)
    if ek == 'bool':
        return truth(v)
    return v.t


# ---------------------------------------------------------------- builtins
@model('builtins.len')
def m_len(eng, st, args, kw, node):
    v = args[0]
    k = v.k
    if isinstance(k, tuple):
        if k[0] == 'list':
            n = eng.list_len(st, v)
            st.assume(n >= 0)
            return vint(n)
        if k[0] == 'arr':
            n = eng.arr_shape(st, v)[0]
            st.assume(n >= 0)
            return vint(n)
        if k[0] in ('tuple', 'pylist'):
            return vint(len(v.py))
        if k[0] == 'set':
            used(eng, "len(set) = cardinality (ghost counter)")
            return vint(st.heap.rd('len', v.t))
    if isinstance(k, tuple) and k[0] == 'opaque' and k[1] == 'envstr':
        n = z3.Int(fresh_name('strlen'))
        st.assume(n >= 0)
        return vint(n)
    if k == 'str':
        # only used on os.environ values
        n = z3.Int(fresh_name('strlen'))
        st.assume(n >= 0)
        return vint(n)
    raise Unsupported("len of %r" % (k,))


@model('builtins.int')
def m_int(eng, st, args, kw, node):
    v = args[0]
    if v.k == 'int':
        return v
    if v.k == 'bool':
        return vint(to_int(v))
    if v.k == 'real':
        # truncation toward zero
        x = v.t
        return vint(z3.If(x >= 0, z3.ToInt(x), -z3.ToInt(-x)))
    raise Unsupported("int() of %r" % (v.k,))


@model('builtins.float')
def m_float(eng, st, args, kw, node):
    return vreal(to_real(args[0]))


@model('builtins.abs')
def m_abs(eng, st, args, kw, node):
    v = args[0]
    if v.k == 'int':
        return vint(z3.If(v.t >= 0, v.t, -v.t))
    x = to_real(v)
    return vreal(z3.If(x >= 0, x, -x))


def _minmax(eng, st, args, kw, node, is_max):
    if len(args) == 1:
        raise Unsupported("min/max of a sequence")
    acc = args[0]
    for b in args[1:]:
        if acc.k == 'int' and b.k == 'int':
            c = acc.t >= b.t if is_max else acc.t <= b.t
            acc = vint(z3.If(c, acc.t, b.t))
        else:
            x, y = to_real(acc), to_real(b)
            c = x >= y if is_max else x <= y
            acc = vreal(z3.If(c, x, y))
    return acc


@model('builtins.max')
def m_max(eng, st, args, kw, node):
    return _minmax(eng, st, args, kw, node, True)


@model('builtins.min')
def m_min(eng, st, args, kw, node):
    return _minmax(eng, st, args, kw, node, False)


@model('builtins.isinstance')
def m_isinstance(eng, st, args, kw, node):
    """isinstance(x, float|np.ndarray|int): decided from the declared kind, or from a ghost type tag
    for values of kind ('opaque','lambda')."""
    v = args[0]
    tnode = node.args[1]
    tnodes = list(tnode.elts) if isinstance(tnode, ast.Tuple) else [tnode]
    out = []
    for tn in tnodes:
        parts = eng.resolve_dotted(tn)
        tname = parts[-1] if parts else None
        if tname in ('float', 'floating'):
            # np.floating covers NumPy float scalars; a Python float is modelled by kind real
            out.append(v.k == 'real')
        elif tname in ('int', 'integer'):
            out.append(v.k in ('int', 'bool'))
        elif tname == 'ndarray':
            out.append(isinstance(v.k, tuple) and v.k[0] == 'arr')
        else:
            raise Unsupported("isinstance against " + str(tname))
    return vbool(any(out))


def psum(eng, st, arr=None, length=None):
    """psum(a, n) = a[0] + ... + a[n-1]: uninterpreted, with the two defining equations instantiated for
    every array term it is applied to (no quantification over arrays), plus two lemma instances proved by
    induction in lemmas/psum.py (L-psum-lower: if a[s] >= c on [0,N) then psum(a,m2)-psum(a,m1) >= c*(m2-m1))."""
    f = eng.uf('psum', z3.ArraySort(I, I), I, I)
    if arr is None:
        return f
    key = 'axioms:psum:%d' % arr.get_id()
    if key not in st.ghost:
        st.ghost[key] = True
        n, m = z3.Int(fresh_name('pn')), z3.Int(fresh_name('pm'))
        st.pc.append(f(arr, 0) == 0)
        # defining equation, stated between two *existing* psum terms (no matching loop):
        #   n == m+1 and m >= 0  ==>  psum(a,n) == psum(a,m) + a[m]
        body = z3.Implies(z3.And(n == m + 1, m >= 0), f(arr, n) == f(arr, m) + z3.Select(arr, m))
        try:
            st.pc.append(z3.ForAll([m, n], body, patterns=[z3.MultiPattern(f(arr, m), f(arr, n))]))
        except z3.Z3Exception:
            st.pc.append(z3.ForAll([m, n], body))
        if length is not None:
            eng.assumed.add("lemma (proved by induction in lemmas/): a[s] >= c on [0,N) ==> "
                            "psum(a,m2) - psum(a,m1) >= c*(m2-m1) for 0<=m1<=m2<=N, c in {0,1}")
            for c in (0, 1):
                s_ = z3.Int(fresh_name('ps'))
                m1, m2 = z3.Int(fresh_name('pm')), z3.Int(fresh_name('pm'))
                prem = z3.ForAll([s_], z3.Implies(z3.And(0 <= s_, s_ < length), z3.Select(arr, s_) >= c))
                cbody = z3.Implies(z3.And(0 <= m1, m1 <= m2, m2 <= length),
                                   f(arr, m2) - f(arr, m1) >= c * (m2 - m1))
                try:
                    concl = z3.ForAll([m1, m2], cbody, patterns=[z3.MultiPattern(f(arr, m1), f(arr, m2))])
                except z3.Z3Exception:
                    concl = z3.ForAll([m1, m2], cbody)
                st.pc.append(z3.Implies(prem, concl))
    if length is not None:
        # lemma instances (proved by induction in lemmas/l_sums.py): lists that agree on [0,n) have equal prefix sums
        apps = st.ghost.get('psum_apps', [])
        if not any(x.eq(arr) for x, _ in apps):
            s_ = z3.Int(fresh_name('ps'))
            m_ = z3.Int(fresh_name('pm'))
            for (x, y) in apps:
                n_ = z3.If(length <= y, length, y)
                prem = z3.ForAll([s_], z3.Implies(z3.And(0 <= s_, s_ < n_), z3.Select(arr, s_) == z3.Select(x, s_)))
                st.pc.append(z3.Implies(prem, forall_p([m_], z3.Implies(z3.And(0 <= m_, m_ <= n_), f(arr, m_) == f(x, m_)),
                                                       [f(arr, m_)])))
            st.ghost['psum_apps'] = apps + [(arr, length)]
    return f


@model('builtins.sum')
def m_sum(eng, st, args, kw, node):
    v = args[0]
    if isinstance(v.k, tuple) and v.k[0] == 'list' and v.k[1] == 'int':
        used(eng, "sum(list of int) = psum(list, len) (left-to-right integer sum)")
        a, n = eng.list_arr(st, v), eng.list_len(st, v)
        f = psum(eng, st, a, n)
        return vint(f(a, n))
    raise Unsupported("sum of %r" % (v.k,))


@model('itertools.accumulate')
def m_accumulate(eng, st, args, kw, node):
    v = args[0]
    if not (isinstance(v.k, tuple) and v.k[0] == 'list' and v.k[1] == 'int') or kw or len(args) != 1:
        raise Unsupported("accumulate of %r" % (v.k,))
    used(eng, "itertools.accumulate(list of int) yields the prefix sums psum(list, i+1)")
    a, n = eng.list_arr(st, v), eng.list_len(st, v)
    f = psum(eng, st, a, n)
    i = z3.Int(fresh_name('i'))
    return eng.mk_list(st, 'int', n, lam([i], f(a, i + 1)))


@model('builtins.list')
def m_list(eng, st, args, kw, node):
    if not args:
        return eng.mk_list(st, st.hint_ek or 'int', z3.IntVal(0), z3.K(I, z3.IntVal(0)))
    v = args[0]
    if isinstance(v.k, tuple) and v.k[0] == 'iter':
        return Val(('list', v.k[1]), v.t)
    if isinstance(v.k, tuple) and v.k[0] == 'list':
        # fresh list with the same elements
        return eng.mk_list(st, v.k[1], eng.list_len(st, v), eng.list_arr(st, v))
    raise Unsupported("list() of %r" % (v.k,))


@model('copy.deepcopy')
def m_copy_deepcopy(eng, st, args, kw, node):
    v = args[0]
    used(eng, "copy.deepcopy(x): x itself for immutable scalars, a fresh array with the same contents for an ndarray")
    if v.k in ('int', 'real', 'bool', 'none', 'str'):
        return v
    if isinstance(v.k, tuple) and v.k[0] == 'arr':
        return np_copy(eng, st, [v], {}, node)
    raise Unsupported("copy.deepcopy of %r" % (v.k,))


@model('copy.copy')
def m_copy_copy(eng, st, args, kw, node):
    v = args[0]
    if isinstance(v.k, tuple) and v.k[0] == 'list':
        used(eng, "copy.copy(list) = new list with the same elements")
        return eng.mk_list(st, v.k[1], eng.list_len(st, v), eng.list_arr(st, v))
    raise Unsupported("copy.copy of %r" % (v.k,))


# ---------------------------------------------------------------- list methods
@method('list', 'append')
def list_append(eng, st, base, args, kw, node):
    x = args[0]
    ek = base.k[1]
    from .calls import coerce
    x = coerce(eng, st, x, ek, 'append')
    x = Val(x.k, eng.elem_term(x))
    n = eng.list_len(st, base)
    st.assume(n >= 0)
    eng.check_store(st, base.t, None, node, 'append')
    key = 'el:' + elem_tag(ek)
    st.heap.wr(key, base.t, z3.Store(eng.list_arr(st, base), n, x.t))
    st.heap.wr('len', base.t, n + 1)
    return NONE


@method('list', 'pop')
def list_pop(eng, st, base, args, kw, node):
    ek = base.k[1]
    n = eng.list_len(st, base)
    st.assume(n >= 0)
    eng.oblige(st, "noexc:pop-from-empty@L%d" % node.lineno, 'noexc', n > 0, node)
    st.assume(n > 0)
    eng.check_store(st, base.t, None, node, 'pop')
    a = eng.list_arr(st, base)
    if not args:
        v = eng.list_get(st, base, n - 1)
        st.heap.wr('len', base.t, n - 1)
        return v
    i = to_int(args[0])
    i = z3.simplify(i)
    if not (z3.is_int_value(i) and i.as_long() == 0):
        raise Unsupported("list.pop(i) with i != 0")
    v = eng.list_get(st, base, z3.IntVal(0))
    j = z3.Int(fresh_name('j'))
    st.heap.wr('el:' + elem_tag(ek), base.t, lam([j], z3.Select(a, j + 1)))
    st.heap.wr('len', base.t, n - 1)
    return v


def list_extend(eng, st, base, args, kw, node):
    other = args[0]
    if not (isinstance(other.k, tuple) and other.k[0] == 'list'):
        raise Unsupported("extend with %r" % (other.k,))
    n, m = eng.list_len(st, base), eng.list_len(st, other)
    a, b = eng.list_arr(st, base), eng.list_arr(st, other)
    eng.check_store(st, base.t, None, node, 'extend')
    j = z3.Int(fresh_name('j'))
    st.heap.wr('el:' + elem_tag(base.k[1]), base.t, lam([j], z3.If(j < n, z3.Select(a, j), z3.Select(b, j - n))))
    st.heap.wr('len', base.t, n + m)
    return NONE


METHODS[('list', 'extend')] = list_extend


# ---------------------------------------------------------------- binary operators on non-scalars
def binop(eng, st, op, a, b, node):
    ak = a.k[0] if isinstance(a.k, tuple) else a.k
    bk = b.k[0] if isinstance(b.k, tuple) else b.k
    if ak == 'list' and bk == 'list' and isinstance(op, ast.Add):
        if elem_tag(a.k[1]) != elem_tag(b.k[1]):
            raise Unsupported("list + list of different kinds")
        n, m = eng.list_len(st, a), eng.list_len(st, b)
        st.assume(z3.And(n >= 0, m >= 0))
        x, y = eng.list_arr(st, a), eng.list_arr(st, b)
        j = z3.Int(fresh_name('j'))
        return eng.mk_list(st, a.k[1], n + m, lam([j], z3.If(j < n, z3.Select(x, j), z3.Select(y, j - n))))
    if ak == 'list' and bk == 'int' and isinstance(op, ast.Mult):
        # [e] * n  (single-element literal repeated)
        n = eng.list_len(st, a)
        n = z3.simplify(n)
        if not (z3.is_int_value(n) and n.as_long() == 1):
            raise Unsupported("list * int only for one-element lists")
        e = z3.simplify(z3.Select(eng.list_arr(st, a), 0))
        cnt = z3.If(b.t > 0, b.t, z3.IntVal(0))
        return eng.mk_list(st, a.k[1], cnt, z3.K(I, e))
    if ak == 'arr' and bk == 'arr' and isinstance(op, ast.BitAnd) and a.k[2] == 'bool' and b.k[2] == 'bool':
        return arr_bool_and(eng, st, a, b, node)
    if ak == 'arr' or bk == 'arr':
        if isinstance(op, ast.MatMult):
            return matmul(eng, st, a, b, node)
        return arr_binop(eng, st, op, a, b, node)
    raise Unsupported("operator %s on %r, %r (line %d)" % (type(op).__name__, a.k, b.k, node.lineno))


def scalar_op(op, x, y, ek):
    if isinstance(op, ast.Add):
        return x + y
    if isinstance(op, ast.Sub):
        return x - y
    if isinstance(op, ast.Mult):
        return x * y
    if isinstance(op, ast.Div):
        return x / y
    raise Unsupported("array operator %s" % type(op).__name__)


def arr_binop(eng, st, op, a, b, node):
    """numpy elementwise arithmetic with scalar broadcasting (same-shape arrays, or array with scalar,
    or 2-D with 2-D of equal shape).  Result dtype: real unless both int."""
    used(eng, "numpy elementwise + - * / on equal-shape arrays or array-with-scalar, over the reals")
    arrs = [v for v in (a, b) if isinstance(v.k, tuple) and v.k[0] == 'arr']
    nd = arrs[0].k[1]
    if any(v.k[1] != nd for v in arrs):
        raise Unsupported("broadcast between arrays of different rank")
    ek = 'real'
    if all((v.k[2] if isinstance(v.k, tuple) else v.k) == 'int' for v in (a, b)) and not isinstance(op, ast.Div):
        ek = 'int'
    sh = eng.arr_shape(st, arrs[0])
    if len(arrs) == 2:
        sh2 = eng.arr_shape(st, arrs[1])
        for n, (p, q) in enumerate(zip(sh, sh2)):
            if not st.spec:
                eng.oblige(st, "noexc:shape-mismatch%d@L%d" % (n, node.lineno), 'noexc', p == q, node)
            st.assume(p == q)
    i, j = z3.Int(fresh_name('i')), z3.Int(fresh_name('j'))
    vars_ = [i] if nd == 1 else [i, j]
    # named array: op applied pointwise; equal operands give the same term (congruence instead of extensionality)
    operands, tags = [], []
    for v in (a, b):
        if isinstance(v.k, tuple):
            operands.append(eng.arr_data(st, v))
            tags.append('a' + elem_tag(v.k[2]))
        else:
            operands.append(num_term(v, ek))
            tags.append('s')

    def body(*vs):
        xs = []
        for v, o in zip((a, b), operands):
            if isinstance(v.k, tuple):
                e = z3.Select(o, *vs)
                xs.append(num_term(Val(v.k[2], e), ek))
            else:
                xs.append(o)
        return scalar_op(op, xs[0], xs[1], ek)
    _CUR[0] = st
    name = 'ew_%s_%s_%dd_%s' % (type(op).__name__, '_'.join(tags), nd, ek)
    content = named_array(eng, name, operands, vars_, body)
    return eng.mk_arr(st, nd, ek, sh, content)


def arr_map(eng, st, arrs, fn, ek, name=None, extra=()):
    """pointwise map; with `name` the result is a named array term (congruent for equal operands)"""
    nd = arrs[0].k[1]
    if name is not None:
        sh = eng.arr_shape(st, arrs[0])
        i, j = z3.Int(fresh_name('i')), z3.Int(fresh_name('j'))
        vars_ = [i] if nd == 1 else [i, j]
        datas = [eng.arr_data(st, v) for v in arrs]

        def body(*vs):
            xs = [num_term(Val(v.k[2], z3.Select(d, *vs)), ek if ek != 'bool' else v.k[2]) for v, d in zip(arrs, datas)]
            return fn(xs)
        _CUR[0] = st
        content = named_array(eng, 'map_%s_%dd_%s' % (name, nd, '_'.join(elem_tag(v.k[2]) for v in arrs)),
                              datas + list(extra), vars_, body)
        return eng.mk_arr(st, nd, ek, sh, content)
    sh = eng.arr_shape(st, arrs[0])
    i, j = z3.Int(fresh_name('i')), z3.Int(fresh_name('j'))
    xs = []
    for v in arrs:
        d = eng.arr_data(st, v)
        e = z3.Select(d, i) if nd == 1 else z3.Select(d, i, j)
        xs.append(num_term(Val(v.k[2], e), ek if ek != 'bool' else v.k[2]))
    body = fn(xs)
    content = lam([i], body) if nd == 1 else lam([i, j], body)
    return eng.mk_arr(st, nd, ek, sh, content)


def arr_inplace(eng, st, cur, op, rhs, node):
    new = arr_binop(eng, st, op, cur, rhs, node)
    if elem_tag(new.k[2]) != elem_tag(cur.k[2]):
        raise Unsupported("in-place op changes dtype")
    eng.check_store(st, cur.t, None, node, 'inplace')
    key = 'd%d:%s' % (cur.k[1], elem_tag(cur.k[2]))
    st.heap.wr(key, cur.t, eng.arr_data(st, new))


def arr_compare(eng, st, op, a, b, node):
    used(eng, "numpy elementwise comparison array-vs-scalar")
    arr, sc, flip = (a, b, False) if isinstance(a.k, tuple) and a.k[0] == 'arr' else (b, a, True)
    if isinstance(sc.k, tuple):
        raise Unsupported("array-array comparison")

    def f(xs):
        x, y = xs[0], to_real(sc)
        if arr.k[2] == 'int':
            x = z3.ToReal(x)
        if flip:
            x, y = y, x
        return {ast.Lt: x < y, ast.LtE: x <= y, ast.Gt: x > y, ast.GtE: x >= y}[type(op)]
    return arr_map(eng, st, [arr], f, 'bool', name='cmp_%s_%s' % (type(op).__name__, 'flip' if flip else 'std'),
                   extra=[to_real(sc)])


def transpose(eng, st, v):
    if v.k[1] == 1:
        return v
    used(eng, "ndarray.T / np.transpose: read-only transposed copy (views are never written in the subset)")
    d = eng.arr_data(st, v)
    sh = eng.arr_shape(st, v)
    i, j = z3.Int(fresh_name('i')), z3.Int(fresh_name('j'))
    _CUR[0] = st
    return eng.mk_arr(st, 2, v.k[2], [sh[1], sh[0]],
                      named_array(eng, 'transpose_' + elem_tag(v.k[2]), [d], [i, j], lambda a, b: z3.Select(d, b, a)))


# ---------------------------------------------------------------- subscripts
def arr_index_int(eng, st, v, i):
    """a[i] for 1-D (element) or 2-D (row copy)."""
    d = eng.arr_data(st, v)
    if v.k[1] == 1:
        return Val(v.k[2], z3.Select(d, i))
    sh = eng.arr_shape(st, v)
    c = z3.Int(fresh_name('c'))
    _CUR[0] = st
    return eng.mk_arr(st, 1, v.k[2], [sh[1]],
                      named_array(eng, 'row_of_' + elem_tag(v.k[2]), [d, i], [c], lambda cc: z3.Select(d, i, cc)))


def slice_bounds(eng, st, sl, n):
    """python slice clamp for step None, non-negative bounds or None."""
    if sl.step is not None:
        raise Unsupported("slice with step")
    lo = to_int(eng.ev(sl.lower, st)) if sl.lower is not None else z3.IntVal(0)
    hi = to_int(eng.ev(sl.upper, st)) if sl.upper is not None else n
    def clamp(x):
        x = z3.If(x < 0, x + n, x)
        return z3.If(x < 0, 0, z3.If(x > n, n, x))
    lo, hi = clamp(lo), clamp(hi)
    ln = z3.If(hi > lo, hi - lo, 0)
    return lo, hi, ln


def index_items(sl):
    if isinstance(sl, ast.Tuple):
        return list(sl.elts)
    return [sl]


def is_full_slice(n):
    return isinstance(n, ast.Slice) and n.lower is None and n.upper is None and n.step is None


def subscript_load(eng, st, base, sl, node):
    k = base.k
    head = k[0] if isinstance(k, tuple) else k
    if head == 'stack':     # stacked arrays are modelled as the list they were built from
        base = Val(('list', k[1]), base.t)
        k = base.k
        head = 'list'
    if head == 'tuple' or head == 'pylist':
        iv = eng.ev(sl, st)
        i = z3.simplify(to_int(iv))
        if not z3.is_int_value(i):
            raise Unsupported("tuple index must be constant")
        n = i.as_long()
        if n >= len(base.py) or n < -len(base.py):
            # e.g. data.shape[1] of a 1-D array: IndexError (used by the joint front end's type translation)
            st.pending_raises.append((z3.BoolVal(True), 'IndexError', len(st.pc)))
            st.assume(z3.BoolVal(False))
            return vint(0)
        return base.py[n]
    if head == 'list':
        n = eng.list_len(st, base)
        st.assume(n >= 0)
        if isinstance(sl, ast.Slice):
            lo, hi, ln = slice_bounds(eng, st, sl, n)
            a = eng.list_arr(st, base)
            j = z3.Int(fresh_name('j'))
            return eng.mk_list(st, k[1], ln, lam([j], z3.Select(a, j + lo)))
        iv = eng.ev(sl, st)
        i = eng.norm_index(st, to_int(iv), n, node)
        v = eng.list_get(st, base, i)
        if is_ref_kind(v.k) and st.ghost.get('qdepth', 0) == 0:
            b = st.heap.bound('el:ref')
            st.assume(z3.And(v.t >= 0, v.t < st.heap.alloc, z3.Implies(base.t < b, v.t < b)))
            if st.heap.known_below(base.t, st.heap.bound_pos('el:ref')):
                st.heap.note_below(v.t, st.heap.bound_pos('el:ref'))
        return v
    if head == 'arr':
        return arr_load(eng, st, base, sl, node)
    if head == 'pydict':
        iv = eng.ev(sl, st)
        return base.py[iv.py]
    if head == 'ddict':
        return ddict_get(eng, st, base, to_int(eng.ev(sl, st)), node)
    if head == 'pdict':
        return pdict_get(eng, st, base, to_int(eng.ev(sl, st)), node)
    if head == 'idict':
        return idict_load(eng, st, base, to_int(eng.ev(sl, st)), node)
    raise Unsupported("subscript on %r (line %d)" % (k, getattr(node, 'lineno', 0)))


def arr_load(eng, st, base, sl, node):
    nd, ek = base.k[1], base.k[2]
    sh = eng.arr_shape(st, base)
    d = eng.arr_data(st, base)
    items = index_items(sl)
    # index given as a tuple *value* (rows, cols), e.g. full_matrix[_upper_triangle_indices(n)]
    if len(items) == 1 and not isinstance(items[0], ast.Slice):
        iv = eng.ev(items[0], st)
        if isinstance(iv.k, tuple) and iv.k[0] == 'tuple':
            return fancy_load(eng, st, base, iv.py, node)
        if isinstance(iv.k, tuple) and iv.k[0] == 'list':
            if nd == 2:
                return gather_rows(eng, st, base, iv, node)     # a2d[rows] is a2d[rows, :]
            return fancy_load(eng, st, base, [iv], node)
        if isinstance(iv.k, tuple) and iv.k[0] == 'arr' and iv.k[2] == 'bool':
            raise Unsupported("boolean mask read")
        i = eng.norm_index(st, to_int(iv), sh[0], node)
        return arr_index_int(eng, st, base, i)
    if len(items) == 1 and isinstance(items[0], ast.Slice) and nd == 1:
        lo, hi, ln = slice_bounds(eng, st, items[0], sh[0])
        j = z3.Int(fresh_name('j'))
        return eng.mk_arr(st, 1, ek, [ln], lam([j], z3.Select(d, j + lo)))
    if len(items) == 2 and nd == 2:
        a, b = items
        if not isinstance(a, ast.Slice) and not isinstance(b, ast.Slice):
            av, bv = eng.ev(a, st), eng.ev(b, st)
            if isinstance(av.k, tuple) and av.k[0] == 'list':
                return fancy_load(eng, st, base, [av, bv], node)
            i = eng.norm_index(st, to_int(av), sh[0], node)
            j = eng.norm_index(st, to_int(bv), sh[1], node)
            return Val(ek, z3.Select(d, i, j))
        if not isinstance(a, ast.Slice) and isinstance(b, ast.Slice):
            av = eng.ev(a, st)
            if isinstance(av.k, tuple) and av.k[0] == 'list':
                # gather rows: data[member_points, :]
                if not is_full_slice(b):
                    raise Unsupported("row gather with partial column slice")
                return gather_rows(eng, st, base, av, node)
            i = eng.norm_index(st, to_int(av), sh[0], node)
            if is_full_slice(b):
                return arr_index_int(eng, st, base, i)
            lo, hi, ln = slice_bounds(eng, st, b, sh[1])
            c = z3.Int(fresh_name('c'))
            return eng.mk_arr(st, 1, ek, [ln], lam([c], z3.Select(d, i, c + lo)))
    raise Unsupported("array subscript form at line %d" % node.lineno)


def gather_rows(eng, st, base, idx, node):
    used(eng, "numpy integer-list row indexing a[list, :] returns a fresh array of the selected rows in list order")
    sh = eng.arr_shape(st, base)
    d = eng.arr_data(st, base)
    n = eng.list_len(st, idx)
    ia = eng.list_arr(st, idx)
    if not st.spec:
        q = z3.Int(fresh_name('q'))
        g = z3.ForAll([q], z3.Implies(z3.And(0 <= q, q < n),
                                      z3.And(z3.Select(ia, q) >= -sh[0], z3.Select(ia, q) < sh[0])))
        eng.oblige(st, "bounds:gather@L%d" % node.lineno, 'bounds', g, node)
    r, c = z3.Int(fresh_name('r')), z3.Int(fresh_name('c'))
    _CUR[0] = st
    return eng.mk_arr(st, 2, base.k[2], [n, sh[1]],
                      named_array(eng, 'gather_rows_' + elem_tag(base.k[2]), [d, ia], [r, c],
                                  lambda a, b: z3.Select(d, z3.Select(ia, a), b)))


def fancy_load(eng, st, base, idxs, node):
    """a[rows] (1-D) or a[rows, cols] (2-D) with integer lists: fresh 1-D array, element q = a[rows[q], cols[q]]"""
    used(eng, "numpy integer-list ('fancy') indexing gathers a[rows[q](, cols[q])] into a fresh 1-D array")
    nd, ek = base.k[1], base.k[2]
    if len(idxs) != nd or any(not (isinstance(v.k, tuple) and v.k[0] == 'list' and v.k[1] == 'int') for v in idxs):
        raise Unsupported("fancy index form")
    sh = eng.arr_shape(st, base)
    d = eng.arr_data(st, base)
    n = eng.list_len(st, idxs[0])
    st.assume(n >= 0)
    arrs = [eng.list_arr(st, v) for v in idxs]
    q = z3.Int(fresh_name('q'))
    if not st.spec:
        conds = [n == eng.list_len(st, v) for v in idxs[1:]]
        qq = z3.Int(fresh_name('q'))
        for a_, s_ in zip(arrs, sh):
            conds.append(z3.ForAll([qq], z3.Implies(z3.And(0 <= qq, qq < n),
                                                    z3.And(z3.Select(a_, qq) >= 0, z3.Select(a_, qq) < s_))))
        eng.oblige(st, "bounds:fancy@L%d" % node.lineno, 'bounds', z3.And(*conds), node)
        st.assume(z3.And(*conds))
    if nd == 1:
        body = z3.Select(d, z3.Select(arrs[0], q))
    else:
        body = z3.Select(d, z3.Select(arrs[0], q), z3.Select(arrs[1], q))
    return eng.mk_arr(st, 1, ek, [n], lam([q], body))


def elem_from(eng, st, value, ek, what):
    """scalar value -> element term of kind ek"""
    if ek == 'real':
        return to_real(value)
    if ek == 'int':
        if value.k == 'real':
            raise Unsupported("store of a float into an int array")
        return to_int(value)
    if ek == 'val':
        if value.k != 'val':
            raise Unsupported("store of non-payload into payload array")
        return value.t
    if ek == 'bool':
        return truth(value)
    raise Unsupported("element kind %r" % (ek,))


def subscript_store(eng, st, base, sl, value, node):
    k = base.k
    head = k[0] if isinstance(k, tuple) else k
    if head == 'list':
        if isinstance(sl, ast.Slice):
            raise Unsupported("slice assignment on a list")
        n = eng.list_len(st, base)
        st.assume(n >= 0)
        from .calls import coerce
        value = coerce(eng, st, value, k[1], 'list store')
        i = eng.norm_index(st, to_int(eng.ev(sl, st)), n, node)
        eng.check_store(st, base.t, None, node, 'list-item')
        old_arr = eng.list_arr(st, base)
        new_arr = z3.Store(old_arr, i, value.t)
        st.heap.wr('el:' + elem_tag(k[1]), base.t, new_arr)
        if k[1] == 'int' and ('axioms:cnt:%d' % old_arr.get_id()) in st.ghost:
            # counting lemma for a single-position update (proved by induction in lemmas/l_sums.py, cnt-store)
            f = cnt(eng, st, new_arr)
            ck, cn = z3.Int(fresh_name('ck')), z3.Int(fresh_name('cn'))
            delta = z3.If(value.t == ck, 1, 0) - z3.If(z3.Select(old_arr, i) == ck, 1, 0)
            st.pc.append(z3.ForAll([ck, cn], z3.Implies(cn >= 0, f(new_arr, ck, cn) == f(old_arr, ck, cn) + z3.If(cn > i, delta, 0)),
                                   patterns=[f(new_arr, ck, cn)]))
        return
    if head == 'arr':
        return arr_store(eng, st, base, sl, value, node)
    if head == 'idict':
        return idict_store(eng, st, base, to_int(eng.ev(sl, st)), value, node)
    raise Unsupported("subscript store on %r (line %d)" % (k, node.lineno))


def arr_store(eng, st, base, sl, value, node):
    nd, ek = base.k[1], base.k[2]
    sh = eng.arr_shape(st, base)
    d = eng.arr_data(st, base)
    key = 'd%d:%s' % (nd, elem_tag(ek))
    items = index_items(sl)
    dtype = st.ghost.get('npdtype:%d' % base.t.get_id()) if base.t is not None else None
    RANGES = {'uint8': (0, 2 ** 8), 'uint16': (0, 2 ** 16), 'uint32': (0, 2 ** 32), 'uint64': (0, 2 ** 64), 'int8': (-2 ** 7, 2 ** 7),
              'int16': (-2 ** 15, 2 ** 15), 'int32': (-2 ** 31, 2 ** 31), 'int64': (-2 ** 63, 2 ** 63), 'intp': (-2 ** 63, 2 ** 63)}

    def dtype_check(term):
        if ek == 'int' and dtype in RANGES:
            lo_, hi_ = RANGES[dtype]
            eng.oblige(st, "dtype:%s-range@L%d" % (dtype, node.lineno), 'bounds', z3.And(term >= lo_, term < hi_), node)
    eng.check_store(st, base.t, None, node, 'array-item')
    if len(items) == 1 and not isinstance(items[0], ast.Slice):
        iv = eng.ev(items[0], st)
        if isinstance(iv.k, tuple) and iv.k[0] in ('list', 'tuple'):
            idxs = iv.py if iv.k[0] == 'tuple' else [iv]
            return fancy_store(eng, st, base, idxs, value, node)
        if isinstance(iv.k, tuple) and iv.k[0] == 'arr' and iv.k[2] == 'bool':
            return mask_store(eng, st, base, iv, value, node)
        if nd != 1:
            raise Unsupported("row store")
        i = eng.norm_index(st, to_int(iv), sh[0], node)
        e = elem_from(eng, st, value, ek, 'store')
        dtype_check(e)
        st.heap.wr(key, base.t, z3.Store(d, i, e))
        return
    if len(items) == 2 and nd == 2:
        a, b = items
        if not isinstance(a, ast.Slice) and not isinstance(b, ast.Slice):
            i = eng.norm_index(st, to_int(eng.ev(a, st)), sh[0], node)
            j = eng.norm_index(st, to_int(eng.ev(b, st)), sh[1], node)
            e = elem_from(eng, st, value, ek, 'store')
            dtype_check(e)
            st.heap.wr(key, base.t, z3.Store(d, i, j, e))
            return
        if not isinstance(a, ast.Slice) and isinstance(b, ast.Slice):
            # a[i, lo:hi] = 1-D array  (numpy requires equal length: ValueError otherwise)
            i = eng.norm_index(st, to_int(eng.ev(a, st)), sh[0], node)
            lo, hi, ln = slice_bounds(eng, st, b, sh[1])
            if not (isinstance(value.k, tuple) and value.k[0] == 'arr' and value.k[1] == 1):
                raise Unsupported("slice store of non-array")
            used(eng, "numpy slice assignment a[i, lo:hi] = v copies v element by element (float64 to float64: bit copy)")
            vsh = eng.arr_shape(st, value)
            eng.oblige(st, "noexc:slice-length@L%d" % node.lineno, 'noexc', vsh[0] == ln, node)
            st.assume(vsh[0] == ln)
            vd = eng.arr_data(st, value)
            if elem_tag(value.k[2]) != elem_tag(ek):
                raise Unsupported("slice store converting dtype")
            r, c = z3.Int(fresh_name('r')), z3.Int(fresh_name('c'))
            st.heap.wr(key, base.t, lam([r, c], z3.If(z3.And(r == i, c >= lo, c < hi), z3.Select(vd, c - lo),
                                                      z3.Select(d, r, c))))
            return
    raise Unsupported("array store form at line %d" % node.lineno)


def fancy_store(eng, st, base, idxs, value, node):
    """a[rows(, cols)] = scalar | 1-D array  (scatter).  Later positions win on duplicates (numpy)."""
    used(eng, "numpy integer-list index assignment scatters value[q] (or the scalar) to a[rows[q](, cols[q])]")
    nd, ek = base.k[1], base.k[2]
    if len(idxs) != nd:
        raise Unsupported("fancy store rank")
    sh = eng.arr_shape(st, base)
    d = eng.arr_data(st, base)
    key = 'd%d:%s' % (nd, elem_tag(ek))
    n = eng.list_len(st, idxs[0])
    arrs = [eng.list_arr(st, v) for v in idxs]
    qq = z3.Int(fresh_name('q'))
    conds = [n == eng.list_len(st, v) for v in idxs[1:]]
    for a_, s_ in zip(arrs, sh):
        conds.append(z3.ForAll([qq], z3.Implies(z3.And(0 <= qq, qq < n),
                                                z3.And(z3.Select(a_, qq) >= -s_, z3.Select(a_, qq) < s_))))
    eng.oblige(st, "bounds:scatter@L%d" % node.lineno, 'bounds', z3.And(*conds), node)
    st.assume(z3.And(*conds))
    new = z3.Const(fresh_name('scat'), st.heap._sort(key).range())
    q = z3.Int(fresh_name('q'))

    def norm(x, s_):
        return z3.If(x < 0, x + s_, x)
    if isinstance(value.k, tuple) and value.k[0] == 'arr':
        vsh = eng.arr_shape(st, value)
        eng.oblige(st, "noexc:scatter-length@L%d" % node.lineno, 'noexc', vsh[0] == n, node)
        st.assume(vsh[0] == n)
        vd = eng.arr_data(st, value)
        val_at = lambda t: z3.Select(vd, t)
        scalar = False
    else:
        e = elem_from(eng, st, value, ek, 'scatter')
        val_at = lambda t: e
        scalar = True
    # characterisation: positions hit get the value of (some, for scalars: any) hitting q; others unchanged.
    if nd == 1:
        r = z3.Int(fresh_name('r'))
        hit = lambda t, r_: norm(z3.Select(arrs[0], t), sh[0]) == r_
        sel_new = lambda r_: z3.Select(new, r_)
        sel_old = lambda r_: z3.Select(d, r_)
        cells = [r]
    else:
        r, c = z3.Int(fresh_name('r')), z3.Int(fresh_name('c'))
        hit = lambda t, rc: z3.And(norm(z3.Select(arrs[0], t), sh[0]) == rc[0], norm(z3.Select(arrs[1], t), sh[1]) == rc[1])
        cells = [r, c]
    cell = cells[0] if nd == 1 else cells
    selN = (lambda: z3.Select(new, *cells))
    selO = (lambda: z3.Select(d, *cells))
    # (1) every q writes its cell unless a later q' hits the same cell
    q2 = z3.Int(fresh_name('q'))
    tgt = [norm(z3.Select(a_, q), s_) for a_, s_ in zip(arrs, sh)]
    later = z3.Exists([q2], z3.And(q < q2, q2 < n, *[norm(z3.Select(a_, q2), s_) == t_ for a_, s_, t_ in zip(arrs, sh, tgt)]))
    if scalar:
        st.assume(z3.ForAll([q], z3.Implies(z3.And(0 <= q, q < n), z3.Select(new, *tgt) == val_at(q))))
    else:
        st.assume(z3.ForAll([q], z3.Implies(z3.And(0 <= q, q < n, z3.Not(later)), z3.Select(new, *tgt) == val_at(q))))
    # (2) cells not hit are unchanged
    anyhit = z3.Exists([q2], z3.And(0 <= q2, q2 < n, hit(q2, cell)))
    st.assume(z3.ForAll(cells, z3.Implies(z3.Not(anyhit), selN() == selO())))
    # the same frame fact with an explicit witness function (better trigger: new[cell])
    w = z3.Function(fresh_name('scatter_w'), *([I] * nd + [I]))
    wc = w(*cells)
    hitw = z3.And(0 <= wc, wc < n, *[norm(z3.Select(a_, wc), s_) == c_ for a_, s_, c_ in zip(arrs, sh, cells)])
    st.assume(z3.ForAll(cells, z3.Or(hitw, selN() == selO()), patterns=[selN()]))
    st.heap.wr(key, base.t, new)


def mask_store(eng, st, base, mask, value, node):
    used(eng, "numpy boolean-mask assignment a[mask] = scalar sets exactly the masked cells")
    nd, ek = base.k[1], base.k[2]
    d = eng.arr_data(st, base)
    md = eng.arr_data(st, mask)
    key = 'd%d:%s' % (nd, elem_tag(ek))
    e = elem_from(eng, st, value, ek, 'mask store')
    i, j = z3.Int(fresh_name('i')), z3.Int(fresh_name('j'))
    if nd == 1:
        st.heap.wr(key, base.t, lam([i], z3.If(z3.Select(md, i), e, z3.Select(d, i))))
    else:
        st.heap.wr(key, base.t, lam([i, j], z3.If(z3.Select(md, i, j), e, z3.Select(d, i, j))))


# ---------------------------------------------------------------- comprehensions
def list_comp(eng, st, node):
    """[elt for target in seq (if cond)] with a non-allocating element expression: the result is a fresh
    list described pointwise (Lambda).  Filters and allocating elements need a loop contract instead."""
    if len(node.generators) != 1 or node.generators[0].is_async:
        raise Unsupported("nested comprehension")
    gen = node.generators[0]
    from . import stmts
    d = stmts.iter_domain(eng, gen.iter, st, node)
    if d.kind == 'set':
        raise Unsupported("comprehension over a set")
    ordn = eng.frame.comp_ord.get(id(node))
    cc = (eng.frame.contract.ghost.get('comps') or {}).get(ordn)
    if gen.ifs or cc is not None:
        return comp_with_contract(eng, st, node, gen, d, ordn, cc)
    if d.step != 1:
        raise Unsupported("comprehension over stepped range")
    q = z3.Int(fresh_name('q'))
    n = z3.If(d.stop > d.start, d.stop - d.start, z3.IntVal(0))
    sub = st.copy()
    sub.assume(z3.And(q >= 0, q < n))
    alloc0 = sub.heap.alloc
    heap_keys0 = {k: (v[0], len(v[1])) for k, v in sub.heap.m.items()}
    stmts.assign_to(eng, sub, gen.target, d.bind(d.start + q, sub), node)
    saved_pc = len(sub.pc)
    ev = eng.ev(node.elt, sub)
    if sub.pending_raises:
        # element evaluation may raise: the raise happens iff it happens for some q
        for (cond, exc, npc) in sub.pending_raises:
            st.pending_raises.append((z3.And(q >= 0, q < n, cond), exc, len(st.pc)))
    if z3.simplify(sub.heap.alloc - alloc0).as_long() != 0 if z3.is_int_value(z3.simplify(sub.heap.alloc - alloc0)) else True:
        raise Unsupported("allocating comprehension element needs a comprehension contract (ghost 'comps')")
    for kx, vx in sub.heap.m.items():
        if kx in heap_keys0 and (not vx[0].eq(heap_keys0[kx][0]) or len(vx[1]) != heap_keys0[kx][1]):
            raise Unsupported("comprehension element writes the heap")
    # facts learned about the element at index q hold for every q in range
    facts = sub.pc[len(st.pc):]
    facts = [f for f in facts if not f.eq(z3.And(q >= 0, q < n))]
    if isinstance(ev.k, tuple) and ev.k[0] == 'pylist':
        raise Unsupported("comprehension of heterogeneous lists")
    _CUR[0] = st
    res = eng.mk_list(st, ev.k, n, lam([q], eng.elem_term(ev)))
    if facts:
        st.assume(z3.ForAll([q], z3.Implies(z3.And(q >= 0, q < n), z3.And(*facts))))
    return res


def comp_with_contract(eng, st, node, gen, d, ordn, cc):
    raise Unsupported("comprehension %s with filter/contract: not yet supported" % ordn)


# ---------------------------------------------------------------- numpy
def shape_arg(eng, st, v):
    """shape given as int | tuple | list literal | arr.shape tuple"""
    if v.k == 'int':
        return [v.t]
    if isinstance(v.k, tuple) and v.k[0] in ('tuple', 'pylist'):
        return [to_int(x) for x in v.py]
    if isinstance(v.k, tuple) and v.k[0] == 'list' and v.k[1] == 'int':
        n = z3.simplify(eng.list_len(st, v))
        if z3.is_int_value(n):
            return [z3.Select(eng.list_arr(st, v), i) for i in range(n.as_long())]
    raise Unsupported("shape argument %r" % (v.k,))


def _filled(eng, st, args, kw, node, value):
    shp = kw.get('shape', args[0] if args else None)
    sh = shape_arg(eng, st, shp)
    dt = kw.get('dtype')
    ek = 'real'
    if dt is not None and dt.k == 'str' and 'int' in dt.py:
        ek = 'int'
    for s_ in sh:
        if not st.spec:
            eng.oblige(st, "noexc:negative-dimension@L%d" % node.lineno, 'noexc', s_ >= 0, node)
            st.assume(s_ >= 0)
    val = z3.RealVal(value) if ek == 'real' else z3.IntVal(value)
    if dt is not None and dt.k == 'str' and dt.py.split('.')[-1] in ('float32', 'float16'):
        raise Unsupported("reduced-precision float dtype %s" % dt.py)
    if len(sh) == 1:
        res = eng.mk_arr(st, 1, ek, sh, z3.K(I, val))
    elif len(sh) == 2:
        i, j = z3.Int(fresh_name('i')), z3.Int(fresh_name('j'))
        res = eng.mk_arr(st, 2, ek, sh, lam([i, j], val))
    else:
        raise Unsupported("array rank %d" % len(sh))
    if ek == 'int' and res.t is not None:
        # the integer dtype READ FROM THE SOURCE bounds what may be stored (numpy wraps or raises outside it)
        st.ghost['npdtype:%d' % res.t.get_id()] = dt.py.split('.')[-1]
    return res


@model('numpy.zeros')
def np_zeros(eng, st, args, kw, node):
    used(eng, "np.zeros/np.ones: fresh float64 (or integer dtype) array of the given shape filled with 0/1")
    return _filled(eng, st, args, kw, node, 0)


@model('numpy.ones')
def np_ones(eng, st, args, kw, node):
    used(eng, "np.zeros/np.ones: fresh float64 (or integer dtype) array of the given shape filled with 0/1")
    return _filled(eng, st, args, kw, node, 1)


@model('numpy.sqrt')
def np_sqrt(eng, st, args, kw, node):
    v = args[0]
    used(eng, "np.sqrt/math.sqrt(x) for x >= 0 is the non-negative real s with s*s == x (float rounding ignored)")
    if isinstance(v.k, tuple) and v.k[0] == 'arr':
        f = eng.uf('sqrt', R, R)
        _sqrt_axiom(eng, st, f)
        return arr_map(eng, st, [v], lambda xs: f(xs[0]), 'real')
    x = to_real(v)
    if not st.spec:
        eng.oblige(st, "noexc:sqrt-of-negative@L%d" % node.lineno, 'noexc', x >= 0, node)
        st.assume(x >= 0)
    s_ = z3.Real(fresh_name('sqrt'))
    st.assume(z3.And(s_ >= 0, s_ * s_ == x))
    return vreal(s_)


MODELS['math.sqrt'] = np_sqrt


def _sqrt_axiom(eng, st, f):
    if 'axioms:sqrt' not in st.ghost:
        st.ghost['axioms:sqrt'] = True
        x = z3.Real('sqrt_x')
        st.pc.append(z3.ForAll([x], z3.Implies(x >= 0, z3.And(f(x) >= 0, f(x) * f(x) == x)), patterns=[f(x)]))


@model('numpy.square')
def np_square(eng, st, args, kw, node):
    v = args[0]
    if isinstance(v.k, tuple) and v.k[0] == 'arr':
        return arr_map(eng, st, [v], lambda xs: xs[0] * xs[0], 'real' if v.k[2] == 'real' else 'int')
    x = to_real(v)
    return vreal(x * x)


@model('numpy.copy')
def np_copy(eng, st, args, kw, node):
    v = args[0]
    used(eng, "np.copy(a): fresh array with the same shape and contents (np.copy(None) is a 0-d object array)")
    if v.k == 'none':
        return Val(('opaque', 'none-array'), eng.new_ref(st))
    if isinstance(v.k, tuple) and v.k[0] == 'arr':
        r = eng.mk_arr(st, v.k[1], v.k[2], eng.arr_shape(st, v), eng.arr_data(st, v))
        # np.copy of a null (None-valued) field yields an object that is not None; keep the reference non-null
        return r
    raise Unsupported("np.copy of %r" % (v.k,))


@model('numpy.diag')
def np_diag(eng, st, args, kw, node):
    v = args[0]
    if not (isinstance(v.k, tuple) and v.k[0] == 'arr'):
        raise Unsupported("np.diag of %r" % (v.k,))
    used(eng, "np.diag(1-D) builds the diagonal matrix; np.diag(2-D)/ndarray.diagonal() extract the main diagonal")
    d = eng.arr_data(st, v)
    sh = eng.arr_shape(st, v)
    i, j = z3.Int(fresh_name('i')), z3.Int(fresh_name('j'))
    if v.k[1] == 1:
        zero = zero_of(v.k[2])
        return eng.mk_arr(st, 2, v.k[2], [sh[0], sh[0]], lam([i, j], z3.If(i == j, z3.Select(d, i), zero)))
    n = z3.If(sh[0] < sh[1], sh[0], sh[1])
    return eng.mk_arr(st, 1, v.k[2], [n], lam([i], z3.Select(d, i, i)))


@method('arr', 'diagonal')
def arr_diagonal(eng, st, base, args, kw, node):
    if base.k[1] != 2 or args or kw:
        raise Unsupported("diagonal() form")
    return np_diag(eng, st, [base], {}, node)


@method('arr', 'copy')
def arr_copy(eng, st, base, args, kw, node):
    return np_copy(eng, st, [base], {}, node)


@model('numpy.transpose')
def np_transpose(eng, st, args, kw, node):
    return transpose(eng, st, args[0])


@model('numpy.triu_indices')
def np_triu_indices(eng, st, args, kw, node):
    """ASSUMED: np.triu_indices(n) = (rows, cols), the row-major enumeration of {(r,c): 0<=r<=c<n}.
    Index arrays are modelled as integer lists (they are only ever used as fancy indices)."""
    used(eng, "np.triu_indices(n) enumerates the upper triangle {(r,c): r<=c<n} in row-major order "
              "(rows[q], cols[q] with q = r*n - r(r+1)/2 + c); index arrays modelled as integer lists")
    n = to_int(args[0])
    if len(args) > 1 or kw:
        raise Unsupported("triu_indices with k/m")
    total = z3.Int(fresh_name('tri_total'))
    st.assume(z3.And(2 * total == n * (n + 1), total >= 0))
    ra = z3.Const(fresh_name('tri_rows'), z3.ArraySort(I, I))
    ca = z3.Const(fresh_name('tri_cols'), z3.ArraySort(I, I))
    rows = eng.mk_list(st, 'int', total, ra)
    cols = eng.mk_list(st, 'int', total, ca)
    from . import spec as S
    from .calls import call_specfn
    r, c, q = z3.Int(fresh_name('r')), z3.Int(fresh_name('c')), z3.Int(fresh_name('q'))
    rank = lambda rr, cc: call_specfn(eng, S.SPECFNS['tri_rank'], [vint(rr), vint(cc), vint(n)], st).t
    st.assume(z3.ForAll([r, c], z3.Implies(z3.And(0 <= r, r <= c, c < n),
                                           z3.And(z3.Select(ra, rank(r, c)) == r, z3.Select(ca, rank(r, c)) == c,
                                                  0 <= rank(r, c), rank(r, c) < total)),
                        patterns=[rank(r, c)]))
    st.assume(z3.ForAll([q], z3.Implies(z3.And(0 <= q, q < total),
                                        z3.And(0 <= z3.Select(ra, q), z3.Select(ra, q) <= z3.Select(ca, q),
                                               z3.Select(ca, q) < n,
                                               rank(z3.Select(ra, q), z3.Select(ca, q)) == q)),
                        patterns=[z3.Select(ra, q), z3.Select(ca, q)]))
    return vtuple([rows, cols])


@model('numpy.vstack')
def np_vstack(eng, st, args, kw, node):
    """ASSUMED: np.vstack(list of 2-D arrays with equal column counts) = their row-wise concatenation in list order.
    Row offsets are given by the ghost function row_offset(result, s) (prefix sums of the parts' row counts)."""
    v = args[0]
    if not (isinstance(v.k, tuple) and v.k[0] == 'list' and v.k[1] == ('arr', 2, 'real')):
        raise Unsupported("np.vstack of %r" % (v.k,))
    used(eng, "np.vstack(list of 2-D arrays): fresh array; rows of part s occupy result rows [row_offset(s), row_offset(s+1)) in list order")
    n = eng.list_len(st, v)
    parts = eng.list_arr(st, v)
    sh0, sh1 = st.heap.get('sh0'), st.heap.get('sh1')
    d2 = st.heap.get('d2:real')
    if not st.spec:
        s_ = z3.Int(fresh_name('s'))
        eng.oblige(st, "noexc:vstack-needs-one-array-and-equal-columns@L%d" % node.lineno, 'noexc',
                   z3.And(n >= 1, z3.ForAll([s_], z3.Implies(z3.And(0 <= s_, s_ < n),
                                                             z3.Select(sh1, z3.Select(parts, s_)) == z3.Select(sh1, z3.Select(parts, 0))))), node)
        st.assume(n >= 1)
    r = eng.new_ref(st)
    voff = eng.uf('row_offset', I, I, I)
    s_, i_, c_ = z3.Int(fresh_name('s')), z3.Int(fresh_name('i')), z3.Int(fresh_name('c'))
    st.assume(voff(r, 0) == 0)
    st.assume(z3.ForAll([s_], z3.Implies(z3.And(0 <= s_, s_ < n),
                                         voff(r, s_ + 1) == voff(r, s_) + z3.Select(sh0, z3.Select(parts, s_))),
                        patterns=[voff(r, s_)]))
    # the same offsets as prefix sums of the list of row counts
    _CUR[0] = st
    rows = lam([s_], z3.Select(sh0, z3.Select(parts, s_)))
    pf = psum(eng, st, rows, n)
    st.assume(z3.ForAll([s_], z3.Implies(z3.And(0 <= s_, s_ <= n), voff(r, s_) == pf(rows, s_)), patterns=[voff(r, s_)]))
    out = z3.Const(fresh_name('vstack'), z3.ArraySort(I, I, R))
    st.assume(z3.ForAll([s_, i_, c_], z3.Implies(z3.And(0 <= s_, s_ < n, 0 <= i_, i_ < z3.Select(sh0, z3.Select(parts, s_))),
                                                 z3.Select(out, voff(r, s_) + i_, c_) == z3.Select(z3.Select(d2, z3.Select(parts, s_)), i_, c_)),
                        patterns=[z3.Select(z3.Select(d2, z3.Select(parts, s_)), i_, c_)]))
    st.heap.wr('sh0', r, voff(r, n))
    st.heap.wr('sh1', r, z3.Select(sh1, z3.Select(parts, 0)))
    st.heap.wr('d2:real', r, out)
    return Val(('arr', 2, 'real'), r)


@model('numpy.argmin')
def np_argmin(eng, st, args, kw, node):
    v = args[0]
    if not (isinstance(v.k, tuple) and v.k[0] == 'arr' and v.k[1] == 1) or kw or len(args) != 1:
        raise Unsupported("argmin form")
    used(eng, "np.argmin(1-D) = index of the first minimum (no NaN: floats are reals)")
    n = eng.arr_shape(st, v)[0]
    d = eng.arr_data(st, v)
    if not st.spec:
        eng.oblige(st, "noexc:argmin-of-empty@L%d" % node.lineno, 'noexc', n > 0, node)
        st.assume(n > 0)
    r = z3.Int(fresh_name('argmin'))
    j = z3.Int(fresh_name('j'))
    st.assume(z3.And(0 <= r, r < n))
    st.assume(forall_p([j], z3.Implies(z3.And(0 <= j, j < n), z3.Select(d, r) <= z3.Select(d, j)), [z3.Select(d, j)]))
    st.assume(forall_p([j], z3.Implies(z3.And(0 <= j, j < r), z3.Select(d, r) < z3.Select(d, j)), [z3.Select(d, j)]))
    return vint(r)


# ---------------------------------------------------------------- real sums
def rsum(eng, st, arr=None, n=None):
    """rsum(A, n) = A[0] + ... + A[n-1] over the reals (summation order ignored: A-REAL).
    Per-array defining equations; lemma instances (proved by induction in lemmas/l_sums.py):
      prefix-extensionality between every pair of arrays summed in this state, constant-array sum."""
    f = eng.uf('rsum', z3.ArraySort(I, R), I, R)
    if arr is None:
        return f
    key = 'axioms:rsum:%d' % arr.get_id()
    if key not in st.ghost:
        st.ghost[key] = True
        a, b = z3.Int(fresh_name('rm')), z3.Int(fresh_name('rn'))
        st.pc.append(f(arr, 0) == 0)
        body = z3.Implies(z3.And(b == a + 1, a >= 0), f(arr, b) == f(arr, a) + z3.Select(arr, a))
        try:
            st.pc.append(z3.ForAll([a, b], body, patterns=[z3.MultiPattern(f(arr, a), f(arr, b))]))
        except z3.Z3Exception:
            st.pc.append(z3.ForAll([a, b], body))
    if n is not None:
        apps = st.ghost.setdefault('rsum_apps', [])
        if not any(x.eq(arr) and y.eq(n) for x, y in apps):
            eng.assumed.add("lemma (proved by induction in lemmas/l_sums.py): arrays equal on [0,n) have equal rsum(.,n); "
                            "rsum of an array constant on [0,n) is n times the constant; rsum of non-negative terms is non-negative")
            s_ = z3.Int(fresh_name('rs'))
            for (x, y) in apps:
                prem = z3.ForAll([s_], z3.Implies(z3.And(0 <= s_, s_ < n), z3.Select(arr, s_) == z3.Select(x, s_)))
                st.pc.append(z3.Implies(z3.And(n == y, prem), f(arr, n) == f(x, y)))
            prem = z3.ForAll([s_], z3.Implies(z3.And(0 <= s_, s_ < n), z3.Select(arr, s_) == z3.Select(arr, 0)))
            st.pc.append(z3.Implies(z3.And(n >= 0, prem), f(arr, n) == z3.ToReal(n) * z3.Select(arr, 0)))
            prem = z3.ForAll([s_], z3.Implies(z3.And(0 <= s_, s_ < n), z3.Select(arr, s_) >= 0))
            st.pc.append(z3.Implies(z3.And(n >= 0, prem), f(arr, n) >= 0))
            st.ghost['rsum_apps'] = apps + [(arr, n)]
    return f


@model('numpy.sum')
def np_sum(eng, st, args, kw, node):
    v = args[0]
    if kw or len(args) != 1:
        raise Unsupported("np.sum with axis/keywords")
    if isinstance(v.k, tuple) and v.k[0] == 'arr' and v.k[1] == 1 and v.k[2] == 'real':
        used(eng, "np.sum(1-D float array) = mathematical sum of its elements (summation order/rounding ignored)")
        d, n = eng.arr_data(st, v), eng.arr_shape(st, v)[0]
        return vreal(rsum(eng, st, d, n)(d, n))
    if isinstance(v.k, tuple) and v.k[0] == 'list' and v.k[1] == 'real':
        used(eng, "np.sum(list of float) = mathematical sum of its elements")
        d, n = eng.list_arr(st, v), eng.list_len(st, v)
        return vreal(rsum(eng, st, d, n)(d, n))
    if isinstance(v.k, tuple) and v.k[0] == 'arr' and v.k[2] == 'bool':
        used(eng, "np.sum(boolean array) = number of True cells (uninterpreted count of the array contents)")
        d = eng.arr_data(st, v)
        cnt = eng.uf('count_true_%dd' % v.k[1], d.sort(), *([I] * v.k[1] + [I]))
        sh = eng.arr_shape(st, v)
        r = cnt(d, *sh)
        st.assume(r >= 0)
        return vint(r)
    raise Unsupported("np.sum of %r" % (v.k,))


# ---------------------------------------------------------------- linear algebra (assumed, uninterpreted)
def _norm_uf(eng, nd):
    if nd == 1:
        return eng.uf('norm2_1d', z3.ArraySort(I, R), I, R)
    return eng.uf('norm2_2d', z3.ArraySort(I, I, R), I, I, R)


@model('numpy.linalg.norm')
def np_norm(eng, st, args, kw, node):
    v = args[0]
    if kw or len(args) != 1 or not (isinstance(v.k, tuple) and v.k[0] == 'arr' and v.k[2] == 'real'):
        raise Unsupported("norm form")
    used(eng, "np.linalg.norm(a) is a non-negative real, a function of the array contents only (Frobenius/2-norm, opaque)")
    f = _norm_uf(eng, v.k[1])
    r = f(eng.arr_data(st, v), *eng.arr_shape(st, v))
    st.assume(r >= 0)
    return vreal(r)


@model('numpy.linalg.eigh')
def np_eigh(eng, st, args, kw, node):
    """ASSUMED: for symmetric A (n x n) returns (d, Q): Q orthogonal, A = Q diag(d) Q^T (exact over the reals).
    The relation is recorded as the uninterpreted predicate eigh_rel(A, n, d, Q)."""
    v = args[0]
    if not (isinstance(v.k, tuple) and v.k[0] == 'arr' and v.k[1] == 2):
        raise Unsupported("eigh form")
    used(eng, "np.linalg.eigh(A), A symmetric: returns (d, Q) with Q orthogonal and A = Q diag(d) Q^T, exact over the reals "
              "(LAPACK rounding ignored); spectral calculus: f applied to d gives the matrix function")
    sh = eng.arr_shape(st, v)
    if not st.spec:
        eng.oblige(st, "noexc:eigh-non-square@L%d" % node.lineno, 'noexc', sh[0] == sh[1], node)
        st.assume(sh[0] == sh[1])
    dd = z3.Const(fresh_name('eig_d'), z3.ArraySort(I, R))
    qd = z3.Const(fresh_name('eig_q'), z3.ArraySort(I, I, R))
    d = eng.mk_arr(st, 1, 'real', [sh[0]], dd)
    q = eng.mk_arr(st, 2, 'real', [sh[0], sh[0]], qd)
    rel = eng.uf('eigh_rel', z3.ArraySort(I, I, R), I, z3.ArraySort(I, R), z3.ArraySort(I, I, R), B)
    st.assume(rel(eng.arr_data(st, v), sh[0], dd, qd))
    return vtuple([d, q])


def matmul(eng, st, a, b, node):
    used(eng, "operator @ (matrix product): result shape (rows(a), cols(b)); contents an uninterpreted function of the operands")
    if not all(isinstance(v.k, tuple) and v.k[0] == 'arr' and v.k[2] == 'real' for v in (a, b)):
        raise Unsupported("matmul operands")
    sa, sb = eng.arr_shape(st, a), eng.arr_shape(st, b)
    da, db = eng.arr_data(st, a), eng.arr_data(st, b)
    if a.k[1] == 2 and b.k[1] == 2:
        if not st.spec:
            eng.oblige(st, "noexc:matmul-shape@L%d" % node.lineno, 'noexc', sa[1] == sb[0], node)
            st.assume(sa[1] == sb[0])
        f = eng.uf('mm22', da.sort(), db.sort(), I, I, I, z3.ArraySort(I, I, R))
        return eng.mk_arr(st, 2, 'real', [sa[0], sb[1]], f(da, db, sa[0], sa[1], sb[1]))
    if a.k[1] == 1 and b.k[1] == 2:
        if not st.spec:
            eng.oblige(st, "noexc:matmul-shape@L%d" % node.lineno, 'noexc', sa[0] == sb[0], node)
            st.assume(sa[0] == sb[0])
        f = eng.uf('mm12', da.sort(), db.sort(), I, I, z3.ArraySort(I, R))
        return eng.mk_arr(st, 1, 'real', [sb[1]], f(da, db, sb[0], sb[1]))
    if a.k[1] == 2 and b.k[1] == 1:
        if not st.spec:
            eng.oblige(st, "noexc:matmul-shape@L%d" % node.lineno, 'noexc', sa[1] == sb[0], node)
            st.assume(sa[1] == sb[0])
        f = eng.uf('mm21', da.sort(), db.sort(), I, I, z3.ArraySort(I, R))
        return eng.mk_arr(st, 1, 'real', [sa[0]], f(da, db, sa[0], sa[1]))
    if not st.spec:
        eng.oblige(st, "noexc:matmul-shape@L%d" % node.lineno, 'noexc', sa[0] == sb[0], node)
        st.assume(sa[0] == sb[0])
    f = eng.uf('dot11', da.sort(), db.sort(), I, R)
    return vreal(f(da, db, sa[0]))


def call_opaque(eng, st, fv, args, kwargs, node):
    """Call of a caller-supplied callable (the rho-update callback): ASSUMED to return a positive real,
    to be a function of its arguments, and to have no effect on the heap."""
    if fv.k[1] != 'callable':
        raise Unsupported("call of opaque %r" % (fv.k,))
    used(eng, "rho_update callback: returns a positive real that is a function of its five arguments; no side effects")
    f = eng.uf('rho_update_fn', I, R, R, R, R, R, R)
    if len(args) != 5 or kwargs:
        raise Unsupported("callback arity")
    r = f(fv.t, *[to_real(a) for a in args])
    st.assume(r > 0)
    return vreal(r)


# ---------------------------------------------------------------- sorted / defaultdict / counting
def _mentions_bound(st, *terms):
    """does one of the terms mention a variable bound by an enclosing spec quantifier?"""
    qv = st.ghost.get('qvars', ())
    if not qv:
        return st.ghost.get('qdepth', 0) > 0
    ids = {c.get_id() for c in qv}
    seen = set()
    stack = list(terms)
    while stack:
        t = stack.pop()
        i = t.get_id()
        if i in seen:
            continue
        seen.add(i)
        if i in ids:
            return True
        if z3.is_app(t):
            stack.extend(t.children())
        elif z3.is_quantifier(t):
            stack.append(t.body())
    return False


def cnt_ext_instance(eng, st, a, na, b, nb):
    """instance of the lemma cnt-ext (proved by induction in lemmas/l_sums.py): two lists of equal length that agree
    pointwise have the same count of every value.  Requested explicitly by a contract (spec builtin cnt_ext) -- instantiating
    it for every pair of lists in scope makes unrelated goals time out."""
    f = cnt(eng, st, a)
    cnt(eng, st, b)
    kk, s_ = z3.Int(fresh_name('ck')), z3.Int(fresh_name('cs'))
    prem = z3.ForAll([s_], z3.Implies(z3.And(0 <= s_, s_ < na), z3.Select(a, s_) == z3.Select(b, s_)))
    concl = z3.ForAll([kk], f(a, kk, na) == f(b, kk, nb), patterns=[f(a, kk, na)])
    concl2 = z3.ForAll([kk], f(a, kk, na) == f(b, kk, nb), patterns=[f(b, kk, nb)])
    return z3.Implies(z3.And(na == nb, prem), z3.And(concl, concl2))


def cnt(eng, st, arr=None, length=None):
    """cnt(a, k, p) = #{q < p : a[q] == k}  (prefix count; per-array defining equations, no matching loop).
    Lemma instances (proved by induction in lemmas/l_sums.py, `cnt-updates`): lists of equal length that agree
    pointwise have equal counts; cnt(a, k, p) <= p."""
    f = eng.uf('cnt', z3.ArraySort(I, I), I, I, I)
    if arr is None:
        return f
    key = 'axioms:cnt:%d' % arr.get_id()
    if length is not None and not _mentions_bound(st, arr, length):
        apps = st.ghost.setdefault('cnt_apps', [])
        if not any(x.eq(arr) and y.eq(length) for x, y in apps):
            kk = z3.Int(fresh_name('ck'))
            st.pc.append(z3.ForAll([kk], f(arr, kk, length) <= length, patterns=[f(arr, kk, length)]))
            st.ghost['cnt_apps'] = apps + [(arr, length)]
            eng.assumed.add("lemma (proved by induction in lemmas/l_sums.py, cnt-updates): lists that agree pointwise have equal "
                            "cnt; cnt(a,k,n) <= n; a single-position store changes cnt by [v==k] - [old==k] beyond that position")
    if key not in st.ghost:
        st.ghost[key] = True
        k, m, n = z3.Int(fresh_name('ck')), z3.Int(fresh_name('cm')), z3.Int(fresh_name('cn'))
        st.pc.append(forall_p([k], f(arr, k, 0) == 0, [f(arr, k, 0)]))
        body = z3.Implies(z3.And(n == m + 1, m >= 0),
                          f(arr, k, n) == f(arr, k, m) + z3.If(z3.Select(arr, m) == k, 1, 0))
        try:
            st.pc.append(z3.ForAll([k, m, n], body, patterns=[z3.MultiPattern(f(arr, k, m), f(arr, k, n))]))
        except z3.Z3Exception:
            st.pc.append(z3.ForAll([k, m, n], body))
        st.pc.append(forall_p([k, m], z3.Implies(m >= 0, f(arr, k, m) >= 0), [f(arr, k, m)]))
    return f


@model('builtins.sorted')
def m_sorted(eng, st, args, kw, node):
    v = args[0]
    if not (isinstance(v.k, tuple) and v.k[0] == 'list' and v.k[1] == 'int'):
        raise Unsupported("sorted of %r" % (v.k,))
    n = eng.list_len(st, v)
    st.assume(n >= 0)
    a = eng.list_arr(st, v)
    out = z3.Const(fresh_name('sorted'), z3.ArraySort(I, I))
    i, j = z3.Int(fresh_name('i')), z3.Int(fresh_name('j'))
    if 'key' in kw:
        return sorted_by_key(eng, st, v, kw, node)
    if kw:
        raise Unsupported("sorted keywords")
    used(eng, "sorted(list of int): fresh list, same length, ascending, same members; an ascending input is returned elementwise unchanged")
    res = eng.mk_list(st, 'int', n, out)
    st.assume(z3.ForAll([i, j], z3.Implies(z3.And(0 <= i, i < j, j < n), z3.Select(out, i) <= z3.Select(out, j)),
                        patterns=[z3.MultiPattern(z3.Select(out, i), z3.Select(out, j))]))
    w1 = z3.Function(fresh_name('perm'), I, I)
    w2 = z3.Function(fresh_name('perminv'), I, I)
    st.assume(z3.ForAll([i], z3.Implies(z3.And(0 <= i, i < n),
                                        z3.And(0 <= w1(i), w1(i) < n, z3.Select(out, i) == z3.Select(a, w1(i)), w2(w1(i)) == i)),
                        patterns=[z3.Select(out, i)]))
    st.assume(z3.ForAll([i], z3.Implies(z3.And(0 <= i, i < n),
                                        z3.And(0 <= w2(i), w2(i) < n, z3.Select(a, i) == z3.Select(out, w2(i)), w1(w2(i)) == i)),
                        patterns=[z3.Select(a, i)]))
    asc = z3.ForAll([i, j], z3.Implies(z3.And(0 <= i, i < j, j < n), z3.Select(a, i) <= z3.Select(a, j)))
    st.assume(z3.Implies(asc, z3.ForAll([i], z3.Implies(z3.And(0 <= i, i < n), z3.Select(out, i) == z3.Select(a, i)),
                                         patterns=[z3.Select(out, i)])))
    return res


def sorted_by_key(eng, st, v, kw, node):
    """sorted(ids, key=f, reverse=True) with f a closure `return table[i]`: stable sort by key, descending."""
    keyf = kw['key']
    rev = kw.get('reverse')
    if keyf.k != 'func' or keyf.py[0] != 'closure':
        raise Unsupported("sorted key function")
    fdef = keyf.py[1]
    # the key function must be `def g(i): return table[i]` with table a local list of reals
    if not (len(fdef.body) == 1 and isinstance(fdef.body[0], ast.Return) and isinstance(fdef.body[0].value, ast.Subscript)
            and isinstance(fdef.body[0].value.value, ast.Name)):
        raise Unsupported("sorted key function shape")
    table = st.env.get(fdef.body[0].value.value.id)
    if table is None or not (isinstance(table.k, tuple) and table.k[0] == 'list'):
        raise Unsupported("sorted key table")
    descending = rev is not None and z3.is_true(z3.simplify(truth(rev)))
    used(eng, "sorted(list, key=table lookup, reverse=True): fresh list, a permutation of the input, keys non-increasing (stable)")
    n = eng.list_len(st, v)
    a = eng.list_arr(st, v)
    ta = eng.list_arr(st, table)
    out = z3.Const(fresh_name('sortedk'), z3.ArraySort(I, I))
    res = eng.mk_list(st, 'int', n, out)
    i, j = z3.Int(fresh_name('i')), z3.Int(fresh_name('j'))
    ki, kj = z3.Select(ta, z3.Select(out, i)), z3.Select(ta, z3.Select(out, j))
    st.assume(z3.ForAll([i, j], z3.Implies(z3.And(0 <= i, i < j, j < n), (ki >= kj) if descending else (ki <= kj)),
                        patterns=[z3.MultiPattern(z3.Select(out, i), z3.Select(out, j))]))
    w1 = z3.Function(fresh_name('perm'), I, I)
    w2 = z3.Function(fresh_name('perminv'), I, I)
    st.assume(z3.ForAll([i], z3.Implies(z3.And(0 <= i, i < n),
                                        z3.And(0 <= w1(i), w1(i) < n, z3.Select(out, i) == z3.Select(a, w1(i)), w2(w1(i)) == i)),
                        patterns=[z3.Select(out, i)]))
    st.assume(z3.ForAll([i], z3.Implies(z3.And(0 <= i, i < n),
                                        z3.And(0 <= w2(i), w2(i) < n, z3.Select(a, i) == z3.Select(out, w2(i)), w1(w2(i)) == i)),
                        patterns=[z3.Select(a, i)]))
    return res


@model('collections.defaultdict')
def m_defaultdict(eng, st, args, kw, node):
    """defaultdict(list) keyed by ints: a map key -> list reference (0 = no entry yet)"""
    tn = eng.resolve_dotted(node.args[0]) if node.args else None
    if tn != ['list']:
        raise Unsupported("defaultdict factory")
    used(eng, "collections.defaultdict(list) keyed by ints: a missing key yields a fresh empty list which is stored under the key")
    r = eng.new_ref(st)
    st.heap.wr('el:ref', r, z3.K(I, z3.IntVal(0)))
    return Val(('ddict', 'int'), r)


def ddict_get(eng, st, base, key, node):
    tbl = st.heap.rd('el:ref', base.t)
    if st.spec:     # contract clauses read the table without creating entries (0 = no entry)
        return Val(('list', 'int'), z3.Select(tbl, key))
    eng.check_store(st, base.t, None, node, 'defaultdict-entry')
    cur = z3.Select(tbl, key)
    fresh = eng.new_ref(st)
    st.heap.wr('len', fresh, z3.IntVal(0))
    used_ref = z3.If(cur == 0, fresh, cur)
    st.heap.wr('el:ref', base.t, z3.Store(tbl, key, used_ref))
    st.assume(z3.And(cur >= 0, cur < fresh))
    return Val(('list', 'int'), used_ref)


# ---------------------------------------------------------------- statistics (assumed, uninterpreted)
@model('numpy.cov')
def np_cov(eng, st, args, kw, node):
    """ASSUMED: np.cov(M, bias=b) with M of shape (variables, observations): the (variables x variables) sample
    covariance, dividing by n_obs when b is true and by n_obs - 1 otherwise.  Recorded as cov_uf(M, vars, obs, b)."""
    v = args[0]
    if len(args) != 1 or set(kw) - {'bias'} or not (isinstance(v.k, tuple) and v.k[0] == 'arr' and v.k[1] == 2):
        raise Unsupported("np.cov form")
    used(eng, "np.cov(M, bias=b): rows of M are variables; result[i,j] = sum_t (M[i,t]-mean_i)(M[j,t]-mean_j) / (n if b else n-1); "
              "an uninterpreted function of (contents, shape, b)")
    b = truth(kw['bias']) if 'bias' in kw else z3.BoolVal(False)
    sh = eng.arr_shape(st, v)
    f = eng.uf('cov_uf', z3.ArraySort(I, I, R), I, I, B, z3.ArraySort(I, I, R))
    return eng.mk_arr(st, 2, 'real', [sh[0], sh[0]], f(eng.arr_data(st, v), sh[0], sh[1], b))


@model('numpy.mean')
def np_mean(eng, st, args, kw, node):
    v = args[0]
    if isinstance(v.k, tuple) and v.k[0] == 'arr' and v.k[1] == 2 and set(kw) == {'axis'}:
        ax = z3.simplify(to_int(kw['axis']))
        if z3.is_int_value(ax) and ax.as_long() == 0:
            used(eng, "np.mean(A, axis=0): vector of column means, an uninterpreted function of (contents, shape)")
            sh = eng.arr_shape(st, v)
            f = eng.uf('colmean_uf', z3.ArraySort(I, I, R), I, I, z3.ArraySort(I, R))
            return eng.mk_arr(st, 1, 'real', [sh[1]], f(eng.arr_data(st, v), sh[0], sh[1]))
    if isinstance(v.k, tuple) and v.k[0] in ('arr', 'list') and not kw and len(args) == 1:
        used(eng, "np.mean / np.median of all entries: uninterpreted functions of (contents, shape)")
        return vreal(_agg(eng, st, v, 'mean'))
    raise Unsupported("np.mean form")


def _agg(eng, st, v, name):
    if v.k[0] == 'list':
        if elem_tag(v.k[1]) != 'real':
            raise Unsupported("%s of list of %r" % (name, v.k[1]))
        f = eng.uf(name + '_1d', z3.ArraySort(I, R), I, R)
        return f(eng.list_arr(st, v), eng.list_len(st, v))
    d = eng.arr_data(st, v)
    sh = eng.arr_shape(st, v)
    f = eng.uf('%s_%dd' % (name, v.k[1]), d.sort(), *([I] * v.k[1] + [R]))
    return f(d, *sh)


@model('numpy.median')
def np_median(eng, st, args, kw, node):
    v = args[0]
    if kw or len(args) != 1 or not (isinstance(v.k, tuple) and v.k[0] in ('arr', 'list')):
        raise Unsupported("np.median form")
    used(eng, "np.mean / np.median of all entries: uninterpreted functions of (contents, shape)")
    return vreal(_agg(eng, st, v, 'median'))


# ---------------------------------------------------------------- {k: [] for k in range(n)}
def dict_comp(eng, st, node):
    """{k: [] for k in range(n)}: a dict keyed by 0..n-1 whose values are n distinct fresh empty lists.
    Subscripting with an absent key raises KeyError."""
    if len(node.generators) != 1 or node.generators[0].ifs:
        raise Unsupported("dict comprehension form")
    gen = node.generators[0]
    parts = eng.resolve_dotted(gen.iter.func) if isinstance(gen.iter, ast.Call) else None
    if not (parts == ['range'] and len(gen.iter.args) == 1 and isinstance(gen.target, ast.Name)
            and isinstance(node.key, ast.Name) and node.key.id == gen.target.id
            and isinstance(node.value, ast.List) and not node.value.elts):
        raise Unsupported("dict comprehension form")
    used(eng, "{k: [] for k in range(n)}: dict with keys 0..n-1 mapped to n pairwise distinct fresh empty lists")
    n = to_int(eng.ev(gen.iter.args[0], st))
    n = z3.If(n > 0, n, 0)
    tbl_ref = eng.new_ref(st)
    b0 = st.heap.alloc
    na = z3.Int(fresh_name('alloc'))
    st.assume(na >= b0 + n)
    st.heap.new_epoch(na)
    r = z3.Int(fresh_name('r'))
    old_len = st.heap.get('len')
    st.heap.set('len', lam([r], z3.If(z3.And(b0 <= r, r < b0 + n), 0, z3.Select(old_len, r))))
    k = z3.Int(fresh_name('k'))
    st.heap.wr('el:ref', tbl_ref, lam([k], z3.If(z3.And(0 <= k, k < n), b0 + k, 0)))
    return Val(('pdict', 'int'), tbl_ref, (b0, n))


def pdict_get(eng, st, base, key, node):
    tbl = st.heap.rd('el:ref', base.t)
    cur = z3.Select(tbl, key)
    if not st.spec:
        if 'KeyError' in eng.frame.exc_ok:
            st.pending_raises.append((cur == 0, 'KeyError', len(st.pc)))
        else:
            eng.oblige(st, "noexc:KeyError@L%d" % node.lineno, 'noexc', cur != 0, node)
        st.assume(cur != 0)
    return Val(('list', 'int'), cur)


# ---------------------------------------------------------------- sets of ints, random.sample
@model('builtins.set')
def m_set(eng, st, args, kw, node):
    if args or kw:
        raise Unsupported("set(iterable)")
    r = eng.new_ref(st)
    st.heap.wr('set:', r, z3.K(I, z3.BoolVal(False)))
    st.heap.wr('len', r, z3.IntVal(0))
    return Val(('set',), r)


@method('set', 'add')
def set_add(eng, st, base, args, kw, node):
    x = to_int(args[0])
    eng.check_store(st, base.t, None, node, 'set-add')
    mem = st.heap.rd('set:', base.t)
    n = st.heap.rd('len', base.t)
    st.heap.wr('len', base.t, n + z3.If(z3.Select(mem, x), 0, 1))
    st.heap.wr('set:', base.t, z3.Store(mem, x, z3.BoolVal(True)))
    return NONE


@model('random.sample')
def m_random_sample(eng, st, args, kw, node):
    """ASSUMED: random.sample(range(n), k) returns a fresh list of k pairwise distinct ints in [0, n);
    ValueError when k > n or k < 0; consumes the global `random` generator (effect, see C14)."""
    a0 = node.args[0]
    parts = eng.resolve_dotted(a0.func) if isinstance(a0, ast.Call) else None
    if parts == ['range'] and len(a0.args) == 1 and not kw:
        n = to_int(eng.ev(a0.args[0], st))
    else:
        pv = eng.ev(a0, st)         # a range object bound to a name earlier
        if pv.k != ('range',) or kw:
            raise Unsupported("random.sample population form")
        lo_, n = pv.py
        if not z3.is_int_value(z3.simplify(lo_)) or z3.simplify(lo_).as_long() != 0:
            raise Unsupported("random.sample over a range not starting at 0")
    used(eng, "random.sample(range(n), k): fresh list of k pairwise distinct ints in [0,n); ValueError if k>n or k<0; "
              "reads and advances the global `random` generator")
    k = to_int(args[1]) if len(args) > 1 else None
    if k is None:
        raise Unsupported("random.sample arity")
    bad = z3.Or(k < 0, k > z3.If(n > 0, n, 0))
    if 'ValueError' in eng.frame.exc_ok:
        st.pending_raises.append((bad, 'ValueError', len(st.pc)))
    else:
        eng.oblige(st, "noexc:sample-larger-than-population@L%d" % node.lineno, 'noexc', z3.Not(bad), node)
    st.assume(z3.Not(bad))
    out = z3.Const(fresh_name('sample'), z3.ArraySort(I, I))
    i, j = z3.Int(fresh_name('i')), z3.Int(fresh_name('j'))
    st.assume(z3.ForAll([i], z3.Implies(z3.And(0 <= i, i < k), z3.And(0 <= z3.Select(out, i), z3.Select(out, i) < n)),
                        patterns=[z3.Select(out, i)]))
    st.assume(z3.ForAll([i, j], z3.Implies(z3.And(0 <= i, i < j, j < k), z3.Select(out, i) != z3.Select(out, j)),
                        patterns=[z3.MultiPattern(z3.Select(out, i), z3.Select(out, j))]))
    st.ghost['effect:random'] = True
    return eng.mk_list(st, 'int', k, out)


# ---------------------------------------------------------------- bool-array &, inv, det, log
def arr_bool_and(eng, st, a, b, node):
    return arr_map(eng, st, [a, b], lambda xs: z3.And(xs[0], xs[1]), 'bool', name='and')


@model('numpy.linalg.inv')
def np_inv(eng, st, args, kw, node):
    v = args[0]
    if not (isinstance(v.k, tuple) and v.k[0] == 'arr' and v.k[1] == 2):
        raise Unsupported("inv form")
    used(eng, "np.linalg.inv(A): fresh array of the same shape, an uninterpreted function of the contents (singular input not modelled)")
    sh = eng.arr_shape(st, v)
    f = eng.uf('inv_uf', z3.ArraySort(I, I, R), I, z3.ArraySort(I, I, R))
    return eng.mk_arr(st, 2, 'real', [sh[0], sh[1]], f(eng.arr_data(st, v), sh[0]))


DENORM_MIN = z3.Q(1, 2 ** 1074)


def real_det(eng, st, v):
    f = eng.uf('det_uf', z3.ArraySort(I, I, R), I, R)
    d = f(eng.arr_data(st, v), eng.arr_shape(st, v)[0])
    spd = eng.uf('is_spd', z3.ArraySort(I, I, R), I, B)
    # mathematics: a symmetric positive-definite matrix has a positive determinant
    st.assume(z3.Implies(spd(eng.arr_data(st, v), eng.arr_shape(st, v)[0]), d > 0))
    return d


@model('numpy.linalg.det')
def np_det(eng, st, args, kw, node):
    """ASSUMED, with the honest IEEE range clause: the double returned is the real determinant, except that a
    magnitude below the smallest subnormal (2**-1074) is returned as 0.0 (underflow).  Overflow to inf is the
    mirror image and is reported by the same obligation at the np.log call (log of inf is inf: not finite)."""
    v = args[0]
    if not (isinstance(v.k, tuple) and v.k[0] == 'arr' and v.k[1] == 2):
        raise Unsupported("det form")
    used(eng, "np.linalg.det(A) = real determinant, flushed to 0.0 when its magnitude is below 2**-1074 (IEEE underflow); "
              "det of an SPD matrix is positive over the reals")
    d = real_det(eng, st, v)
    r = z3.Real(fresh_name('fl_det'))
    st.assume(r == z3.If(z3.And(d < DENORM_MIN, d > -DENORM_MIN), z3.RealVal(0), d))
    return vreal(r)


@model('numpy.linalg.slogdet')
def np_slogdet(eng, st, args, kw, node):
    v = args[0]
    if not (isinstance(v.k, tuple) and v.k[0] == 'arr' and v.k[1] == 2):
        raise Unsupported("slogdet form")
    used(eng, "np.linalg.slogdet(A) = (sign, log|det A|) with log|det A| a finite real whenever det A != 0 (no under/overflow: "
              "computed from the LU factors); equals logdet_uf(A)")
    d = real_det(eng, st, v)
    f = eng.uf('logdet_uf', z3.ArraySort(I, I, R), I, R)
    sign = z3.If(d > 0, z3.RealVal(1), z3.If(d < 0, z3.RealVal(-1), z3.RealVal(0)))
    return vtuple([vreal(sign), vreal(f(eng.arr_data(st, v), eng.arr_shape(st, v)[0]))])


@model('numpy.log')
def np_log(eng, st, args, kw, node):
    """np.log(x): finite only for x > 0 (log(0) = -inf, log(<0) = nan).  The obligation is finiteness."""
    v = args[0]
    x = to_real(v)
    used(eng, "np.log(x) for x > 0 is the real logarithm ln_uf(x); x <= 0 gives -inf/nan (obligation: argument positive)")
    if not st.spec:
        eng.oblige(st, "finite:log-argument-positive@L%d" % node.lineno, 'noexc', x > 0, node)
        st.assume(x > 0)
    f = eng.uf('ln_uf', R, R)
    return vreal(f(x))


MODELS['math.log'] = np_log


@model('numpy.abs')
def np_abs(eng, st, args, kw, node):
    v = args[0]
    if isinstance(v.k, tuple) and v.k[0] == 'arr':
        return arr_map(eng, st, [v], lambda xs: z3.If(xs[0] >= 0, xs[0], -xs[0]), v.k[2], name='abs')
    return m_abs(eng, st, args, kw, node)


@model('numpy.trace')
def np_trace(eng, st, args, kw, node):
    v = args[0]
    if not (isinstance(v.k, tuple) and v.k[0] == 'arr' and v.k[1] == 2):
        raise Unsupported("trace form")
    used(eng, "np.trace(A) = sum of the diagonal (rsum of the diagonal entries)")
    d = eng.arr_data(st, v)
    n = eng.arr_shape(st, v)[0]
    i = z3.Int(fresh_name('i'))
    _CUR[0] = st
    diag = named_array(eng, 'diag_of', [d], [i], lambda a: z3.Select(d, a, a))
    return vreal(rsum(eng, st, diag, n)(diag, n))


@model('numpy.dot')
def np_dot(eng, st, args, kw, node):
    return matmul(eng, st, args[0], args[1], node)


@model('numpy.asarray', 'numpy.array')
def np_asarray(eng, st, args, kw, node):
    """np.asarray / np.array of a Python list of equal-shape arrays or of floats: stacks along a new first axis."""
    v = args[0]
    if isinstance(v.k, tuple) and v.k[0] == 'list' and v.k[1] == 'real':
        used(eng, "np.asarray/np.array(list of float): fresh 1-D array with the same elements")
        return eng.mk_arr(st, 1, 'real', [eng.list_len(st, v)], eng.list_arr(st, v))
    if isinstance(v.k, tuple) and v.k[0] == 'list' and isinstance(v.k[1], tuple) and v.k[1][0] == 'arr':
        used(eng, "np.asarray(list of equal-shape arrays): a stacked array; element k is a copy of the k-th list entry "
                  "(kept as a list of arrays in the model)")
        return Val(('stack', v.k[1]), v.t)
    raise Unsupported("np.asarray of %r" % (v.k,))


# ---------------------------------------------------------------- multiprocessing.Pool (ASSUMED contract)
TASK_FIELDS = dict(a0='arr2[real]', a1='real', a2='int', a3='int', rho='real', rho_update='opaque:callable',
                   max_iterations='int', relative_tolerance='real', absolute_tolerance='real', verbose='bool',
                   failed='bool', pool='opaque:pool', fn_is_admm='bool')


@method('opaque:pool', 'apply_async')
def pool_apply_async(eng, st, base, args, kw, node):
    """ASSUMED: pool.apply_async(f, args, kwargs) returns a task handle; task.get() returns f(*args, **kwargs) or re-raises
    what f raised, whatever the pool size, the timing and the other tasks.  The handle records f's arguments (ghost fields);
    `failed` is the (unknown) outcome of the worker."""
    from . import spec as S
    from .kinds import parse_kind
    used(eng, "multiprocessing.Pool.apply_async(f, args, kwargs).get() == f(*args, **kwargs), or re-raises what f raised; "
              "independent of pool size, timing and other tasks")
    if 'AsyncTask' not in S.CLASSES:
        S.classschema('AsyncTask', '<multiprocessing.pool.AsyncResult>', TASK_FIELDS)
    fn, a, k = args[0], args[1], args[2]
    t = t0 = tn = None
    dotted = eng.resolve_callable(fn.py[1], st) if fn.k == 'func' and fn.py[0] == 'named' else None
    if a.k != ('pylist',) or k.k != ('pydict',) or len(a.py) != 4:
        raise Unsupported("apply_async argument form")
    r = eng.new_ref(st)
    task = Val(('obj', 'AsyncTask'), r)
    from .calls import coerce
    vals = dict(a0=a.py[0], a1=a.py[1], a2=a.py[2], a3=a.py[3], pool=base,
                fn_is_admm=vbool(dotted == ('contract', 'fast_ticc.admm.front_end.admm_optimize_theta')))
    for name in ('rho', 'rho_update', 'max_iterations', 'relative_tolerance', 'absolute_tolerance', 'verbose'):
        if name not in k.py:
            raise Unsupported("apply_async kwargs: missing " + name)
        vals[name] = k.py[name]
    if set(k.py) - set(vals):
        raise Unsupported("apply_async kwargs: unexpected " + str(set(k.py) - set(vals)))
    for name, v in vals.items():
        key, fk = eng.field_key('AsyncTask', name)
        st.heap.wr(key, r, coerce(eng, st, v, fk, 'task.' + name).t)
    return task


def task_get(eng, st, task, node):
    """task.get(): the ASSUMED Pool contract -- returns admm_optimize_theta(*recorded args) (the callee's CONTRACT is
    applied, so its preconditions are obligations here), or raises WorkerError iff the worker failed."""
    from . import spec as S
    from .calls import apply_contract
    fld = lambda n: eng.get_attr(st, task, n, node)
    failed = fld('failed').t
    if 'WorkerError' in eng.frame.exc_ok or any(('WorkerError' in h or 'Exception' in h or 'BaseException' in h) for h in eng.frame.try_handlers):
        st.pending_raises.append((failed, 'WorkerError', len(st.pc)))
    else:
        eng.oblige(st, "noexc:WorkerError@L%d" % node.lineno, 'noexc', z3.Not(failed), node)
    st.assume(z3.Not(failed))
    st.assume(fld('fn_is_admm').t)
    q = 'fast_ticc.admm.front_end.admm_optimize_theta'
    c = S.CONTRACTS[q]
    mod, fdef = eng.repo.find_function(q)
    res = apply_contract(eng, c, mod, fdef, [fld('a0'), fld('a1'), fld('a2'), fld('a3')],
                         dict(rho=fld('rho'), rho_update=fld('rho_update'), max_iterations=fld('max_iterations'),
                              relative_tolerance=fld('relative_tolerance'), absolute_tolerance=fld('absolute_tolerance'),
                              verbose=fld('verbose')), st, node)
    # determinism of the worker: the result is a function of the task (hence of its recorded arguments) only
    f = eng.uf('task_theta', I, z3.ArraySort(I, R))
    theta = eng.get_attr(st, res, 'theta', node)
    st.assume(eng.arr_data(st, theta) == f(task.t))
    return res


@method('opaque:pool', 'close')
def pool_close(eng, st, base, args, kw, node):
    st.env['_pool_closed'] = vbool(True)
    return NONE


@method('opaque:pool', 'join')
def pool_join(eng, st, base, args, kw, node):
    st.env['_pool_joined'] = vbool(True)
    return NONE


@method('opaque:pool', 'terminate')
def pool_terminate(eng, st, base, args, kw, node):
    st.env['_pool_closed'] = vbool(True)
    return NONE


@model('multiprocessing.Pool')
def mp_pool(eng, st, args, kw, node):
    used(eng, "multiprocessing.Pool(processes=p): worker processes live until close()+join() or terminate(); "
              "garbage collection is not a release guarantee")
    r = eng.new_ref(st)
    st.env['_pool_created'] = vbool(True)
    st.env['_pool_closed'] = vbool(False)
    st.env['_pool_joined'] = vbool(False)
    return Val(('opaque', 'pool'), r)


@model('os.environ.get')
def os_environ_get(eng, st, args, kw, node):
    used(eng, "os.environ.get(name, None): None or a string (environment read: an effect, see C14)")
    st.ghost['effect:env'] = True
    present = z3.Bool(fresh_name('env_present'))
    return Val(('opaque', 'envstr'), z3.If(present, z3.IntVal(1), z3.IntVal(0)))


@method('arr', 'reshape')
def arr_reshape(eng, st, base, args, kw, node):
    """v.reshape(-1, 1) of a 1-D array: the n x 1 column with the same entries"""
    a = [z3.simplify(to_int(x)) for x in args]
    if base.k[1] == 1 and len(a) == 2 and z3.is_int_value(a[0]) and z3.is_int_value(a[1]) and a[0].as_long() == -1 and a[1].as_long() == 1:
        used(eng, "ndarray.reshape(-1, 1) of a 1-D array: n x 1 column with the same entries (copy semantics; never written)")
        d = eng.arr_data(st, base)
        n = eng.arr_shape(st, base)[0]
        i, j = z3.Int(fresh_name('i')), z3.Int(fresh_name('j'))
        _CUR[0] = st
        return eng.mk_arr(st, 2, base.k[2], [n, z3.IntVal(1)],
                          named_array(eng, 'column_of_' + elem_tag(base.k[2]), [d], [i, j], lambda a_, b_: z3.Select(d, a_)))
    raise Unsupported("reshape form")


# ---------------------------------------------------------------- {} used as an int -> int table
def idict_new(eng, st):
    r = eng.new_ref(st)
    st.heap.wr('set:', r, z3.K(I, z3.BoolVal(False)))
    st.heap.wr('el:int', r, z3.K(I, z3.IntVal(0)))
    return Val(('idict',), r)


def idict_store(eng, st, base, key, value, node):
    eng.check_store(st, base.t, None, node, 'dict-item')
    st.heap.wr('set:', base.t, z3.Store(st.heap.rd('set:', base.t), key, z3.BoolVal(True)))
    st.heap.wr('el:int', base.t, z3.Store(st.heap.rd('el:int', base.t), key, to_int(value)))


def idict_load(eng, st, base, key, node):
    present = z3.Select(st.heap.rd('set:', base.t), key)
    if not st.spec:
        eng.oblige(st, "noexc:KeyError@L%d" % node.lineno, 'noexc', present, node)
        st.assume(present)
    return vint(z3.Select(st.heap.rd('el:int', base.t), key))


# ---------------------------------------------------------------- itertools.chain(*lists) -> list
@model('itertools.chain')
def m_chain(eng, st, args, kw, node):
    """list(itertools.chain(*LL)) for a list of lists of floats: the concatenation in order.
    chain_offset(result, k) = start of part k (prefix sums of the part lengths) -- ghost."""
    if len(args) != 1 or not (isinstance(args[0].k, tuple) and args[0].k[0] == 'starred'):
        raise Unsupported("itertools.chain form")
    v = args[0].py
    if not (isinstance(v.k, tuple) and v.k[0] == 'list' and v.k[1] == ('list', 'real')):
        raise Unsupported("itertools.chain over %r" % (v.k,))
    used(eng, "list(itertools.chain(*lists)): concatenation in list order; part k occupies [chain_offset(k), chain_offset(k+1))")
    n = eng.list_len(st, v)
    parts = eng.list_arr(st, v)
    ln = st.heap.get('len')
    elr = st.heap.get('el:real')
    out = z3.Const(fresh_name('chain'), z3.ArraySort(I, R))
    res = eng.mk_list(st, 'real', z3.IntVal(0), out)
    off = eng.uf('chain_offset', I, I, I)
    k_, j_ = z3.Int(fresh_name('k')), z3.Int(fresh_name('j'))
    st.assume(off(res.t, 0) == 0)
    st.assume(z3.ForAll([k_], z3.Implies(z3.And(0 <= k_, k_ < n),
                                         z3.And(off(res.t, k_ + 1) == off(res.t, k_) + z3.Select(ln, z3.Select(parts, k_)),
                                                z3.Select(ln, z3.Select(parts, k_)) >= 0)), patterns=[off(res.t, k_)]))
    st.assume(z3.ForAll([k_, j_], z3.Implies(z3.And(0 <= k_, k_ < n, 0 <= j_, j_ < z3.Select(ln, z3.Select(parts, k_))),
                                             z3.Select(out, off(res.t, k_) + j_) == z3.Select(z3.Select(elr, z3.Select(parts, k_)), j_)),
                        patterns=[z3.Select(z3.Select(elr, z3.Select(parts, k_)), j_)]))
    st.heap.wr('len', res.t, off(res.t, n))
    return Val(('iter', 'real'), res.t)      # an iterator: list(...) materialises it (same object in the model)


_old_m_list = MODELS['builtins.list']


def m_list2(eng, st, args, kw, node):
    if args and isinstance(args[0].k, tuple) and args[0].k[0] == 'list':
        return _old_m_list(eng, st, args, kw, node)
    return _old_m_list(eng, st, args, kw, node)


@model('sys.stdout')
def sys_stdout(eng, st, args, kw, node):
    return Val(('opaque', 'stream'), z3.IntVal(1))


@model('numpy.where')
def np_where(eng, st, args, kw, node):
    """np.where(cond, a, b) elementwise on equal-shape 1-D/2-D arrays (a, b arrays or scalars)"""
    if len(args) != 3 or kw:
        raise Unsupported("np.where form")
    c, a, b = args
    if not (isinstance(c.k, tuple) and c.k[0] == 'arr' and c.k[2] == 'bool'):
        raise Unsupported("np.where condition")
    used(eng, "np.where(cond, a, b): elementwise selection (both branches are evaluated by numpy; only the selected value is kept)")
    nd = c.k[1]
    sh = eng.arr_shape(st, c)
    cd = eng.arr_data(st, c)
    i, j = z3.Int(fresh_name('i')), z3.Int(fresh_name('j'))
    vars_ = [i] if nd == 1 else [i, j]
    operands, kinds = [cd], []
    for v in (a, b):
        if isinstance(v.k, tuple) and v.k[0] == 'arr':
            osh = eng.arr_shape(st, v)
            for p_, q_ in zip(sh, osh):
                if not st.spec:
                    eng.oblige(st, "noexc:shape-mismatch@L%d" % node.lineno, 'noexc', p_ == q_, node)
                st.assume(p_ == q_)
            operands.append(eng.arr_data(st, v))
            kinds.append(('a', v.k[2]))
        else:
            operands.append(to_real(v))
            kinds.append(('s', 'real'))

    def body(*vs):
        xs = []
        for (tag, ek_), o in zip(kinds, operands[1:]):
            if tag == 'a':
                e = z3.Select(o, *vs)
                xs.append(z3.ToReal(e) if ek_ == 'int' else e)
            else:
                xs.append(o)
        return z3.If(z3.Select(cd, *vs), xs[0], xs[1])
    _CUR[0] = st
    content = named_array(eng, 'where_%dd_%s' % (nd, '_'.join(t for t, _ in kinds)), operands, vars_, body)
    return eng.mk_arr(st, nd, 'real', sh, content)


# ---------------------------------------------------------------- further library models (added for rewrites met in seeded changes)
@model('builtins.round')
def m_round(eng, st, args, kw, node):
    """round(x) with one argument: nearest integer, ties to the EVEN neighbour (Python 3 semantics)."""
    if len(args) != 1 or kw:
        raise Unsupported("round with ndigits")
    v = args[0]
    if v.k in ('int', 'bool'):
        return vint(to_int(v))
    if v.k != 'real':
        raise Unsupported("round of %r" % (v.k,))
    used(eng, "round(x): nearest integer, ties to even")
    x = v.t
    f = z3.ToInt(x)                     # floor
    d = x - z3.ToReal(f)
    half = z3.Q(1, 2)
    return vint(z3.If(d < half, f, z3.If(d > half, f + 1, z3.If(f % 2 == 0, f, f + 1))))


@model('numpy.cumsum')
def np_cumsum(eng, st, args, kw, node):
    v = args[0]
    if kw or len(args) != 1:
        raise Unsupported("cumsum with axis/dtype")
    i = z3.Int(fresh_name('i'))
    if isinstance(v.k, tuple) and v.k[0] == 'list' and v.k[1] in ('int', 'real'):
        a, n, ek = eng.list_arr(st, v), eng.list_len(st, v), v.k[1]
    elif isinstance(v.k, tuple) and v.k[0] == 'arr' and v.k[1] == 1 and v.k[2] in ('int', 'real'):
        a, n, ek = eng.arr_data(st, v), eng.arr_shape(st, v)[0], v.k[2]
    else:
        raise Unsupported("cumsum of %r" % (v.k,))
    used(eng, "np.cumsum(1-D): fresh array of the prefix sums, out[i] = a[0] + ... + a[i]")
    f = psum(eng, st, a, n) if ek == 'int' else rsum(eng, st, a, n)
    return eng.mk_arr(st, 1, ek, [n], lam([i], f(a, i + 1)))


_prev_asarray = MODELS['numpy.asarray']


def np_asarray2(eng, st, args, kw, node):
    v = args[0]
    dt = kw.get('dtype') if kw else None
    int_dtype = dt is None or (set(kw) == {'dtype'} and ((dt.k == 'func' and dt.py[0] == 'named' and getattr(dt.py[1], 'id', None) == 'int') or
                                                         (dt.k == 'str' and dt.py.split('.')[-1] in ('int64', 'intp'))))
    if isinstance(v.k, tuple) and v.k[0] == 'list' and v.k[1] == 'int' and int_dtype:
        used(eng, "np.asarray/np.array(list of int): fresh 1-D integer array with the same elements")
        return eng.mk_arr(st, 1, 'int', [eng.list_len(st, v)], eng.list_arr(st, v))
    if isinstance(v.k, tuple) and v.k[0] == 'arr' and not kw:
        used(eng, "np.asarray(ndarray) returns its argument (no copy)")
        return v
    return _prev_asarray(eng, st, args, kw, node)


MODELS['numpy.asarray'] = np_asarray2
MODELS['numpy.array'] = np_asarray2


@model('numpy.linalg.cholesky')
def np_cholesky(eng, st, args, kw, node):
    """ASSUMED: raises LinAlgError unless the matrix is (numerically) positive definite; otherwise a fresh lower-triangular
    factor with a strictly positive diagonal, an uninterpreted function of the contents."""
    v = args[0]
    if not (isinstance(v.k, tuple) and v.k[0] == 'arr' and v.k[1] == 2):
        raise Unsupported("cholesky form")
    used(eng, "np.linalg.cholesky(A): LinAlgError unless A is positive definite; else fresh L = chol_uf(A) with L[i,i] > 0")
    sh = eng.arr_shape(st, v)
    spd = eng.uf('is_spd', z3.ArraySort(I, I, R), I, B)
    ok = spd(eng.arr_data(st, v), sh[0])
    if not st.spec:
        if 'LinAlgError' in eng.frame.exc_ok:
            st.pending_raises.append((z3.Not(ok), 'LinAlgError', len(st.pc)))
        else:
            eng.oblige(st, "noexc:LinAlgError@L%d" % node.lineno, 'noexc', ok, node)
        st.assume(ok)
    f = eng.uf('chol_uf', z3.ArraySort(I, I, R), I, z3.ArraySort(I, I, R))
    data = f(eng.arr_data(st, v), sh[0])
    i = z3.Int(fresh_name('i'))
    st.assume(z3.ForAll([i], z3.Implies(z3.And(0 <= i, i < sh[0]), z3.Select(data, i, i) > 0), patterns=[z3.Select(data, i, i)]))
    return eng.mk_arr(st, 2, 'real', [sh[0], sh[1]], data)


@model('numpy.diagonal')
def np_diagonal(eng, st, args, kw, node):
    v = args[0]
    if kw or len(args) != 1 or not (isinstance(v.k, tuple) and v.k[0] == 'arr' and v.k[1] == 2):
        raise Unsupported("diagonal form")
    used(eng, "np.diagonal(M): the main diagonal, d[i] = M[i,i], length min(shape)")
    sh = eng.arr_shape(st, v)
    d = eng.arr_data(st, v)
    i = z3.Int(fresh_name('i'))
    n = z3.If(sh[0] <= sh[1], sh[0], sh[1])
    return eng.mk_arr(st, 1, v.k[2], [n], lam([i], z3.Select(d, i, i)))


@model('numpy.prod')
def np_prod(eng, st, args, kw, node):
    """ASSUMED, with the IEEE range clause (as for det): the double returned is the real product unless its magnitude is
    below 2**-1074, in which case 0.0 is returned (underflow).  A product of positive reals is positive over the reals."""
    v = args[0]
    if kw or len(args) != 1 or not (isinstance(v.k, tuple) and v.k[0] == 'arr' and v.k[1] == 1 and v.k[2] == 'real'):
        raise Unsupported("prod form")
    used(eng, "np.prod(v) = real product, flushed to 0.0 when its magnitude is below 2**-1074 (IEEE underflow)")
    a, n = eng.arr_data(st, v), eng.arr_shape(st, v)[0]
    f = eng.uf('prod_uf', z3.ArraySort(I, R), I, R)
    p = f(a, n)
    i = z3.Int(fresh_name('i'))
    st.assume(z3.Implies(z3.ForAll([i], z3.Implies(z3.And(0 <= i, i < n), z3.Select(a, i) > 0)), p > 0))
    r = z3.Real(fresh_name('fl_prod'))
    st.assume(r == z3.If(z3.And(p < DENORM_MIN, p > -DENORM_MIN), z3.RealVal(0), p))
    return vreal(r)


@model('numpy.atleast_2d')
def np_atleast_2d(eng, st, args, kw, node):
    v = args[0]
    if kw or len(args) != 1 or not (isinstance(v.k, tuple) and v.k[0] == 'arr' and v.k[1] == 2):
        raise Unsupported("atleast_2d of %r" % (v.k,))
    used(eng, "np.atleast_2d(M) returns M itself when M is already 2-D")
    return v


@model('builtins.range')
def m_range(eng, st, args, kw, node):
    """range(n) / range(lo, hi) as a VALUE (bound to a name, passed on); `for ... in range(...)` is handled by the loop rule"""
    if kw or len(args) not in (1, 2):
        raise Unsupported("range with a step")
    lo = z3.IntVal(0) if len(args) == 1 else to_int(args[0])
    hi = to_int(args[-1])
    return Val(('range',), None, (lo, hi))
