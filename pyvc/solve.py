"""Discharging obligations: z3 (API, via SMT-LIB text so work can be spread over processes),
cvc5 binary as a second opinion on z3's `unknown`s."""
import multiprocessing
import os
import subprocess
import tempfile
import time
import z3

PROVED, REFUTED, UNKNOWN = 'proved', 'refuted', 'unknown'


def to_smt2(ob):
    s = z3.Solver()
    for h in ob.hyps:
        s.add(h)
    if ob.expect_sat:
        pass
    else:
        s.add(z3.Not(ob.goal))
    return s.to_smt2()


def _model_dict(m, limit=400):
    out = {}
    for d in m.decls():
        if len(out) >= limit:
            break
        try:
            v = m[d]
            out[d.name()] = str(v)[:2000]
        except Exception:
            pass
    return out


PORTFOLIO = [({'smt.mbqi': False, 'smt.arith.nl': False}, 0.25),
             ({'smt.mbqi': False}, 0.4),
             ({}, 0.35)]


def _check(args):
    """Portfolio: an `unsat` of any configuration is a proof (each only removes inference power);
    `sat` is accepted from any configuration (z3 reports sat only with a model of the whole input,
    quantifiers included); otherwise unknown, keeping a candidate model for the replay harness."""
    name, smt, timeout_ms, expect_sat, want_model = args
    t0 = time.time()
    cand = None
    reason = ''
    try:
        ctx = z3.Context()      # a private context per query: solving must not depend on what was generated before
        if not expect_sat:
            # stages with fewer hypotheses (a proof from a subset of the hypotheses is still a proof):
            # all quantifier-free hypotheses, plus only the k most recent quantified ones
            full = z3.parse_smt2_string(smt, ctx=ctx)
            goal_neg = full[len(full) - 1]
            qf, quant = [], []
            for a in list(full)[:-1]:
                sx = a.sexpr()
                (quant if ('(forall ' in sx or '(exists ' in sx) else qf).append(a)
            for k, share, nl in ((0, 0.05, False), (0, 0.05, True), (4, 0.05, False), (4, 0.06, True),
                                 (12, 0.05, False), (12, 0.08, True), (40, 0.1, True)):
                if k and k >= len(quant):
                    break
                s0 = z3.Solver(ctx=ctx)
                s0.set('timeout', max(200, int(timeout_ms * share)))
                s0.set('smt.mbqi', False)
                if not nl:
                    s0.set('smt.arith.nl', False)
                s0.add(*qf)
                if k:
                    s0.add(*quant[-k:])
                s0.add(goal_neg)
                if s0.check() == z3.unsat:
                    return (name, PROVED, time.time() - t0, None, 'z3:hyps-qf+last%dq' % k)
        for opts, share in PORTFOLIO:
            s = z3.Solver(ctx=ctx)
            s.set('timeout', max(200, int(timeout_ms * share)))
            for k, v in opts.items():
                s.set(k, v)
            s.from_string(smt)
            r = s.check()
            dt = time.time() - t0
            if r == z3.unsat:
                return (name, REFUTED if expect_sat else PROVED, dt, None, 'z3' + (':' + ','.join(opts) if opts else ''))
            if r == z3.sat:
                md = None
                if want_model and not expect_sat:
                    try:
                        md = _model_dict(s.model())
                    except Exception as e:
                        md = {'_error': str(e)}
                return (name, PROVED if expect_sat else REFUTED, dt, md, 'z3')
            reason = s.reason_unknown()
            if cand is None and want_model and 'incomplete' in reason:
                try:
                    cand = _model_dict(s.model())
                except Exception:
                    cand = None
        return (name, UNKNOWN, time.time() - t0, {'reason': reason, 'candidate_model': cand}, 'z3')
    except Exception as e:          # solver crash is never a verdict
        return (name, UNKNOWN, time.time() - t0, {'reason': 'z3 error: %r' % (e,)}, 'z3')


def cvc5_check(smt, timeout_s, expect_sat):
    """second opinion on z3 unknowns.  Only `unsat` answers are used (proofs); cvc5 needs the logic ALL."""
    with tempfile.NamedTemporaryFile('w', suffix='.smt2', delete=False) as fh:
        fh.write("(set-logic ALL)\n" + smt)
        path = fh.name
    try:
        p = subprocess.run(['/usr/bin/cvc5', '--tlimit=%d' % int(timeout_s * 1000), '--full-saturate-quant', path],
                           capture_output=True, text=True, timeout=timeout_s + 5)
        out = p.stdout.strip().splitlines()
        r = out[0] if out else ''
    except Exception:
        r = ''
    finally:
        os.unlink(path)
    if r == 'unsat':
        return REFUTED if expect_sat else PROVED
    if r == 'sat':
        return PROVED if expect_sat else REFUTED
    return UNKNOWN


def _check_cvc5(args):
    name, smt, timeout_s, expect_sat = args
    t0 = time.time()
    r = cvc5_check(smt, timeout_s, expect_sat)
    return (name, r, time.time() - t0, None, 'cvc5')


def discharge(obls, timeout_s=10, procs=None, use_cvc5=True, log=None):
    """-> list of result dicts in the order of obls"""
    procs = procs or min(16, os.cpu_count() or 4)
    jobs = []
    for n, ob in enumerate(obls):
        # cover (vacuity) obligations get a short budget: a native witness is the fallback
        budget = min(timeout_s, 3) if ob.expect_sat else timeout_s
        jobs.append(("%d" % n, to_smt2(ob), int(budget * 1000), ob.expect_sat, True))
    results = {}
    if len(jobs) <= 2 or procs == 1:
        for j in jobs:
            r = _check(j)
            results[r[0]] = r
    else:
        ctx = multiprocessing.get_context('fork')
        with ctx.Pool(min(procs, len(jobs))) as pool:
            for r in pool.imap_unordered(_check, jobs, chunksize=1):
                results[r[0]] = r
    unknown = [j for j in jobs if results[j[0]][1] == UNKNOWN]
    if use_cvc5 and unknown:
        cj = [(j[0], j[1], timeout_s, j[3]) for j in unknown]
        ctx = multiprocessing.get_context('fork')
        with ctx.Pool(min(procs, len(cj))) as pool:
            for r in pool.imap_unordered(_check_cvc5, cj, chunksize=1):
                # cvc5 is trusted for proofs only; its `sat` on quantified input is not a refutation
                if r[1] == PROVED and not obls[int(r[0])].expect_sat:
                    results[r[0]] = r
                elif r[1] == PROVED and obls[int(r[0])].expect_sat:
                    results[r[0]] = r
    out = []
    for n, ob in enumerate(obls):
        name, verdict, dt, info, backend = results["%d" % n]
        out.append(dict(name=ob.name, kind=ob.kind, fn=ob.fn, lineno=ob.lineno, verdict=verdict, time=dt,
                        backend=backend, info=info, trail=ob.trail, props=ob.props, expect_sat=ob.expect_sat))
    return out
