"""Discharging obligations: z3 (API, via SMT-LIB text so work can be spread over processes),
cvc5 binary as a second opinion on z3's `unknown`s."""
import multiprocessing
import os
import re
import subprocess
import tempfile
import time
import z3

PROVED, REFUTED, UNKNOWN = 'proved', 'refuted', 'unknown'


def to_smt2(ob):
    s = z3.Solver()
    for h in ob.hyps:
        s.add(h)
    if ob.expect_sat:
        pass
    else:
        s.add(z3.Not(ob.goal))
    return s.to_smt2()


def _model_dict(m, limit=400):
    out = {}
    for d in m.decls():
        if len(out) >= limit:
            break
        try:
            v = m[d]
            out[d.name()] = str(v)[:2000]
        except Exception:
            pass
    return out


# stages: (number of most recent quantified hypotheses kept (None = all), solver options)
STAGES = [(0, {'smt.mbqi': False, 'smt.arith.nl': False}), (0, {'smt.mbqi': False}),
          (4, {'smt.mbqi': False, 'smt.arith.nl': False}), (4, {'smt.mbqi': False}),
          (12, {'smt.mbqi': False, 'smt.arith.nl': False}), (12, {'smt.mbqi': False}), (40, {'smt.mbqi': False}),
          (None, {'smt.mbqi': False, 'smt.arith.nl': False}), (None, {'smt.mbqi': False}), (None, {}),
          # everything EXCEPT the most recent quantified hypotheses (intermediate lemma steps meant for other goals)
          (-6, {'smt.mbqi': False}), (-14, {'smt.mbqi': False})]

FULL_STAGE = STAGES.index((None, {}))      # every hypothesis, default options: the only configuration whose `sat` is believed


def _stage(args):
    """One solver configuration on one obligation.  A proof from a SUBSET of the hypotheses is still a proof (`unsat`
    only); `sat` is accepted only with ALL hypotheses present (z3 reports sat with a model of the whole input)."""
    name, stage_id, smt, timeout_ms, expect_sat, want_model = args
    k, opts = STAGES[stage_id]
    t0 = time.time()
    try:
        ctx = z3.Context()      # a private context per query: solving must not depend on what was generated before
        s = z3.Solver(ctx=ctx)
        s.set('timeout', timeout_ms)
        for kk, v in opts.items():
            s.set(kk, v)
        if k is None or expect_sat:
            s.from_string(smt)
            full_hyps = True
        else:
            full = z3.parse_smt2_string(smt, ctx=ctx)
            goal_neg = full[len(full) - 1]
            qf, quant = [], []
            for a in list(full)[:-1]:
                sx = a.sexpr()
                (quant if ('(forall ' in sx or '(exists ' in sx) else qf).append(a)
            full_hyps = k >= len(quant) if k >= 0 else False
            s.add(*qf)
            if k > 0:
                s.add(*quant[-k:])
            elif k < 0:
                s.add(*quant[:k])
            s.add(goal_neg)
        r = s.check()
        dt = time.time() - t0
        tag = 'z3:%s%s' % ('all-hyps' if k is None else ('qf+last%dq' % k if k >= 0 else 'all-but-last%dq' % -k), ''.join(',' + o.split('.')[-1] + '=off' for o in opts))
        if r == z3.unsat:
            return (name, stage_id, REFUTED if expect_sat else PROVED, dt, None, tag)
        if r == z3.sat and full_hyps:
            md = None
            if want_model and not expect_sat:
                try:
                    md = _model_dict(s.model())
                except Exception as e:
                    md = {'_error': str(e)}
            return (name, stage_id, PROVED if expect_sat else REFUTED, dt, md, tag)
        return (name, stage_id, UNKNOWN, dt, {'reason': s.reason_unknown() if r == z3.unknown else 'sat on a subset of the hypotheses'}, tag)
    except Exception as e:          # solver crash is never a verdict
        return (name, stage_id, UNKNOWN, time.time() - t0, {'reason': 'z3 error: %r' % (e,)}, 'z3')


def _check(args):
    """sequential fallback (used for tiny batches): stages in order"""
    name, smt, timeout_ms, expect_sat, want_model = args
    t0 = time.time()
    last = None
    stages = [FULL_STAGE] if expect_sat else range(len(STAGES))
    for sid in stages:
        r = _stage((name, sid, smt, timeout_ms if (sid >= 7 or expect_sat) else max(300, timeout_ms // 10), expect_sat, want_model))
        last = r
        if r[2] != UNKNOWN:
            return (name, r[2], time.time() - t0, r[4], r[5])
    return (name, UNKNOWN, time.time() - t0, last[4], 'z3')


def _run_cvc5(text, timeout_s):
    with tempfile.NamedTemporaryFile('w', suffix='.smt2', delete=False) as fh:
        fh.write(text if text.lstrip().startswith('(set-logic') else "(set-logic ALL)\n" + text)
        path = fh.name
    try:
        p = subprocess.run(['/usr/bin/cvc5', '--tlimit=%d' % int(timeout_s * 1000), '--full-saturate-quant', path],
                           capture_output=True, text=True, timeout=timeout_s + 5)
        out = (p.stdout + p.stderr).strip().splitlines()
        return out[0] if out else ''
    except Exception:
        return ''
    finally:
        os.unlink(path)


_MULTI_INDEX = re.compile(r'\(Array Int Int (?:Int|Real|Bool)\)')


def _without_multi_index_arrays(smt):
    """cvc5 1.0 does not read z3's multi-index arrays (Array Int Int Real).  Dropping every HYPOTHESIS that mentions a
    symbol of such a sort leaves a weaker set of hypotheses: a proof from them is still a proof.  None when the goal
    itself needs such a symbol."""
    bad = set()
    for m in re.finditer(r'\(declare-fun (\|[^|]+\||\S+) \(([^)]*(?:\([^)]*\)[^)]*)*)\) (.*)\)\s*$', smt, re.M):
        if _MULTI_INDEX.search(m.group(2) + ' ' + m.group(3)):
            bad.add(m.group(1))
    if not bad:
        return None
    ctx = z3.Context()
    asserts = list(z3.parse_smt2_string(smt, ctx=ctx))
    if not asserts:
        return None

    def mentions(a):
        t = a.sexpr()
        return any((b if b.startswith('|') else ' %s' % b) in t or ('(%s ' % b) in t for b in bad)
    goal = asserts[-1]
    if mentions(goal):
        return None
    s2 = z3.Solver(ctx=ctx)
    for a in asserts[:-1]:
        if not mentions(a):
            s2.add(a)
    s2.add(goal)
    return s2.to_smt2()


def cvc5_check(smt, timeout_s, expect_sat):
    """second opinion on z3 unknowns.  Only `unsat` answers are used (proofs); cvc5 needs the logic ALL."""
    r = _run_cvc5(smt, timeout_s)
    if r not in ('unsat', 'sat', 'unknown') and ('rror' in r):
        from .smtnest import nest_multi_index
        nested = nest_multi_index(smt)
        if nested is not None:
            r = _run_cvc5(nested, timeout_s)
    if not expect_sat and r not in ('unsat', 'sat', 'unknown') and ('rror' in r):
        try:
            weaker = _without_multi_index_arrays(smt)
        except Exception:
            weaker = None
        if weaker is not None:
            r = _run_cvc5(weaker, timeout_s)
            if r == 'sat':
                r = 'unknown'       # sat on a subset of the hypotheses says nothing
    if r == 'unsat':
        return REFUTED if expect_sat else PROVED
    if r == 'sat':
        return PROVED if expect_sat else REFUTED
    return UNKNOWN


def _check_cvc5(args):
    name, smt, timeout_s, expect_sat = args
    t0 = time.time()
    r = cvc5_check(smt, timeout_s, expect_sat)
    return (name, r, time.time() - t0, None, 'cvc5')


HINTS_FILE = os.path.join(os.path.dirname(os.path.dirname(os.path.abspath(__file__))), 'solver_hints.json')
_HINTS = None


def hint_key(ob):
    # line numbers are dropped so that hints survive edits that only move code
    import re
    return re.sub(r'@?L\d+', '', ob.name) + '|' + re.sub(r'L\d+', 'L', '/'.join(ob.trail))


def load_hints():
    """which solver configuration discharged each obligation on the recorded tree: a speed hint only -- every
    configuration is sound, and obligations without (or with a stale) hint go through all configurations"""
    global _HINTS
    if _HINTS is None:
        try:
            import json
            _HINTS = json.load(open(HINTS_FILE))
        except Exception:
            _HINTS = {}
    return _HINTS


NEW_HINTS = {}


MEM_MB = int(os.environ.get('PYVC_SOLVER_MEM_MB', '3000'))


def _init_worker():
    """every solver process gets a memory ceiling: z3 gives up (`unknown`) instead of growing until the kernel kills it"""
    try:
        z3.set_param('memory_max_size', MEM_MB)
    except Exception:
        pass
    try:        # z3 prints "terminate called ... out of memory" when it aborts at the ceiling: not part of the check's output
        os.dup2(os.open(os.devnull, os.O_WRONLY), 2)
    except Exception:
        pass
    try:
        import resource
        lim = (MEM_MB + 2500) * 1024 * 1024
        resource.setrlimit(resource.RLIMIT_AS, (lim, lim))
    except Exception:
        pass


def _run_jobs(jobs, procs, on_result, all_done, wall_limit_s):
    """Run solver jobs in worker processes.  A worker that dies (memory, solver crash) must never hang the checker: the
    executor reports the broken pool, the unfinished jobs are retried once in a fresh pool and then given up as `unknown`."""
    from concurrent.futures import ProcessPoolExecutor, as_completed
    from concurrent.futures.process import BrokenProcessPool
    import concurrent.futures
    ctx = multiprocessing.get_context('fork')
    pending = list(jobs)
    t_end = time.time() + wall_limit_s
    if pending and not all_done():
        ex = ProcessPoolExecutor(max_workers=max(1, min(procs, len(pending))), mp_context=ctx, initializer=_init_worker)
        futs = {ex.submit(_stage, j): j for j in pending}
        finished = set()
        try:
            for f in as_completed(futs, timeout=max(1.0, t_end - time.time())):
                j = futs[f]
                try:
                    r = f.result()
                except BrokenProcessPool:
                    continue
                except Exception as e:           # noqa: BLE001  (a failing solver process is never a verdict)
                    r = (j[0], j[1], UNKNOWN, 0.0, {'reason': 'solver process failed: %r' % (e,)}, 'z3')
                finished.add(id(j))
                on_result(r)
                if all_done():
                    break
        except concurrent.futures.TimeoutError:
            pass
        finally:
            procs_ = list(getattr(ex, '_processes', {}).values())
            ex.shutdown(wait=False, cancel_futures=True)
            for pr in procs_:
                try:
                    pr.terminate()
                except Exception:
                    pass
        pending = [j for j in pending if id(j) not in finished]
    # whatever the shared pool lost (a dying worker breaks the whole pool) is re-run with one process per job, so that a
    # job that kills its process takes nothing else with it
    if pending and not all_done() and time.time() < t_end:
        _run_isolated(pending, procs, on_result, all_done, t_end, ctx)


def _isolated_main(job, conn):
    _init_worker()
    try:
        conn.send(_stage(job))
    except Exception as e:          # noqa: BLE001
        conn.send((job[0], job[1], UNKNOWN, 0.0, {'reason': 'solver process failed: %r' % (e,)}, 'z3'))
    finally:
        conn.close()


def _run_isolated(jobs, procs, on_result, all_done, t_end, ctx):
    queue = list(jobs)
    running = []        # (process, parent_conn, job, deadline)
    while (queue or running) and not all_done() and time.time() < t_end:
        while queue and len(running) < procs:
            j = queue.pop(0)
            a, b = ctx.Pipe(duplex=False)
            pr = ctx.Process(target=_isolated_main, args=(j, b), daemon=True)
            pr.start()
            b.close()
            running.append((pr, a, j, time.time() + j[3] / 1000.0 + 20))
        still = []
        for pr, conn, j, dl in running:
            r = None
            if conn.poll(0):
                try:
                    r = conn.recv()
                except (EOFError, OSError):
                    r = (j[0], j[1], UNKNOWN, 0.0, {'reason': 'solver process died'}, 'z3')
            elif not pr.is_alive():
                r = (j[0], j[1], UNKNOWN, 0.0, {'reason': 'solver process died (exit code %s)' % pr.exitcode}, 'z3')
            elif time.time() > dl:
                pr.terminate()
                r = (j[0], j[1], UNKNOWN, 0.0, {'reason': 'solver process exceeded its time limit'}, 'z3')
            if r is None:
                still.append((pr, conn, j, dl))
            else:
                conn.close()
                pr.join(timeout=1)
                on_result(r)
        running = still
        time.sleep(0.02)
    for pr, conn, j, dl in running:
        pr.terminate()
        if not all_done():
            on_result((j[0], j[1], UNKNOWN, 0.0, {'reason': 'stopped: wall-clock budget of the solver stage'}, 'z3'))
    for j in queue:
        if not all_done():
            on_result((j[0], j[1], UNKNOWN, 0.0, {'reason': 'not run: wall-clock budget of the solver stage'}, 'z3'))


def discharge(obls, timeout_s=10, procs=None, use_cvc5=True, log=None):
    """-> list of result dicts in the order of obls.
    Round 1: one cheap configuration per obligation.  Round 2: every remaining configuration of every still-open
    obligation is launched concurrently; the first proof (or full-hypothesis refutation) wins and the workers are
    stopped once every obligation has a verdict or has exhausted its configurations."""
    procs = procs or min(16, os.cpu_count() or 4)
    smts = [to_smt2(ob) for ob in obls]
    verdict = {}
    t_spent = {n: 0.0 for n in range(len(obls))}
    info = {}
    ctx = multiprocessing.get_context('fork')

    def budget(n):
        return int((min(timeout_s, 3) if obls[n].expect_sat else timeout_s) * 1000)
    # round 1
    jobs = []
    hints = load_hints()
    cvc5_first = []
    for n, ob in enumerate(obls):
        if ob.expect_sat:
            jobs.append((n, FULL_STAGE, smts[n], budget(n), True, False))
        else:
            sid = hints.get(hint_key(ob))
            if sid == -1 and use_cvc5:
                cvc5_first.append(n)        # recorded as discharged by cvc5: ask cvc5 before spending z3's budgets
            elif isinstance(sid, int) and 0 <= sid < len(STAGES):
                jobs.append((n, sid, smts[n], budget(n), False, True))
            else:
                jobs.append((n, 1, smts[n], min(2000, budget(n)), False, True))

    def on1(r):
        n = r[0]
        t_spent[n] += r[3]
        info[n] = r
        if r[2] != UNKNOWN:
            verdict[n] = r
    if cvc5_first:
        from concurrent.futures import ThreadPoolExecutor
        with ThreadPoolExecutor(max_workers=min(procs, len(cvc5_first))) as tp:
            for r in tp.map(_check_cvc5, [("%d" % n, smts[n], min(timeout_s, 20), False) for n in cvc5_first]):
                if r[1] == PROVED:
                    verdict[int(r[0])] = (int(r[0]), -1, PROVED, r[2], None, 'cvc5')
                    t_spent[int(r[0])] += r[2]
    if jobs:
        waves = (len(jobs) + procs - 1) // procs
        _run_jobs(jobs, procs, on1, lambda: False, wall_limit_s=60 + waves * (timeout_s + 5))
    # round 2
    open_n = [n for n in range(len(obls)) if n not in verdict and not obls[n].expect_sat]
    if open_n:
        jobs = []
        for sid in range(len(STAGES)):
            for n in open_n:
                jobs.append((n, sid, smts[n], budget(n), False, True))
        pending = {n: len(STAGES) for n in open_n}

        def on2(r):
            n = r[0]
            pending[n] -= 1
            t_spent[n] = max(t_spent[n], r[3])
            if n not in verdict:
                if r[2] != UNKNOWN or n not in info or info[n][2] == UNKNOWN:
                    info[n] = r
                if r[2] != UNKNOWN:
                    verdict[n] = r
        waves = (len(jobs) + procs - 1) // procs
        _run_jobs(jobs, procs, on2, lambda: all((m in verdict) or pending[m] <= 0 for m in open_n),
                  wall_limit_s=60 + waves * (timeout_s + 5))
    # cvc5 second opinion on what is still unknown (proofs only)
    still = [n for n in range(len(obls)) if n not in verdict and not obls[n].expect_sat]
    if use_cvc5 and still:
        cj = [("%d" % n, smts[n], min(timeout_s, 20), False) for n in still]
        from concurrent.futures import ThreadPoolExecutor     # each job only waits for the cvc5 binary (own time limit)
        with ThreadPoolExecutor(max_workers=min(procs, len(cj))) as tp:
            for r in tp.map(_check_cvc5, cj):
                if r[1] == PROVED:
                    n = int(r[0])
                    verdict[n] = (n, -1, PROVED, r[2], None, 'cvc5')
    out = []
    for n, ob in enumerate(obls):
        if n in verdict and verdict[n][2] == PROVED and not ob.expect_sat:
            NEW_HINTS[hint_key(ob)] = verdict[n][1]         # stage index, or -1 for cvc5
        r = verdict.get(n) or info.get(n) or (n, -1, UNKNOWN, 0.0, {'reason': 'not run'}, 'z3')
        out.append(dict(name=ob.name, kind=ob.kind, fn=ob.fn, lineno=ob.lineno, verdict=r[2] if n in verdict else UNKNOWN,
                        time=t_spent.get(n, r[3]), backend=r[5], info=r[4], trail=ob.trail, props=ob.props,
                        expect_sat=ob.expect_sat))
    return out
