"""Statements, loops (cut at invariants), and the per-function verification driver."""
import ast
import z3

from .core import (Val, NONE, vint, vreal, vbool, vtuple, to_real, to_int, truth, State, Unsupported,
                   ContractError, fresh_name, sort_of, elem_tag, is_ref_kind, I, R, B)
from . import spec as S
from . import calls
from .calls import eval_bool, eval_clause, coerce

NORMAL = ('normal',)


def flush_raises(eng, st, outs):
    for (cond, exc, npc) in st.pending_raises:
        r = st.copy()
        r.pc = st.pc[:npc] + [cond]
        r.trail.append("raise %s" % exc)
        if exc == 'WorkerError':
            r.env['_any_task_failed'] = vbool(True)    # ghost: a worker failure was observed on this path
        outs.append((('raise', exc), r))
    st.pending_raises = []


def exec_block(eng, body, st):
    states = [st]
    results = []
    for s in body:
        nxt = []
        for cur in states:
            for (o, s2) in exec_stmt(eng, s, cur):
                if o[0] == 'normal':
                    nxt.append(s2)
                else:
                    results.append((o, s2))
        states = nxt
        if not states:
            break
    results += [(NORMAL, s) for s in states]
    return results


def exec_stmt(eng, node, st):
    m = globals().get('st_' + type(node).__name__)
    if m is None:
        raise Unsupported("statement %s at line %d" % (type(node).__name__, node.lineno))
    snapshot_pc = list(st.pc)
    try:
        outs = m(eng, node, st)
    except (Unsupported, ContractError) as e:
        if getattr(eng.frame, 'inline_depth', 0):
            raise
        # a construct outside the subset is tolerated on a path only if that path is infeasible
        # (e.g. `acc = 0` never becoming an array because a loop with >= 1 iterations is skipped)
        dead = State.__new__(State)
        dead.__dict__.update(st.__dict__)
        dead.pc = snapshot_pc
        dead.guards = []
        eng.oblige(dead, "deadpath@L%d:%s" % (getattr(node, 'lineno', 0), str(e)[:60]), 'deadpath', z3.BoolVal(False), node)
        return []
    return outs


def is_logging_call(eng, node):
    if isinstance(node, ast.Call):
        parts = eng.resolve_dotted(node.func)
        if parts and parts[0] in ('LOGGER', 'logging'):
            return True
        if parts == ['print']:
            return True
    return False


def st_Expr(eng, node, st):
    if isinstance(node.value, ast.Constant):
        return [(NORMAL, st)]       # docstring
    if is_logging_call(eng, node.value):
        eng.assumed.add("dropped: logging/print calls (assumed effect-free)")
        return [(NORMAL, st)]
    eng.ev(node.value, st)
    outs = []
    flush_raises(eng, st, outs)
    outs.append((NORMAL, st))
    return outs


def st_Pass(eng, node, st):
    return [(NORMAL, st)]


def assign_to(eng, st, target, value, node):
    if isinstance(target, ast.Name):
        st.env[target.id] = value
    elif isinstance(target, (ast.Tuple, ast.List)):
        if value.py is None or not isinstance(value.py, list):
            raise Unsupported("unpacking a non-tuple at line %d" % node.lineno)
        if len(value.py) != len(target.elts):
            raise Unsupported("unpacking arity mismatch at line %d" % node.lineno)
        for t, v in zip(target.elts, value.py):
            assign_to(eng, st, t, v, node)
    elif isinstance(target, ast.Subscript):
        base = eng.ev(target.value, st)
        from . import models
        models.subscript_store(eng, st, base, target.slice, value, node)
    elif isinstance(target, ast.Attribute):
        base = eng.ev(target.value, st)
        set_attr(eng, st, base, target.attr, value, node)
    else:
        raise Unsupported("assignment target %s" % type(target).__name__)


def set_attr(eng, st, base, attr, value, node):
    k = base.k
    if not (isinstance(k, tuple) and k[0] == 'obj'):
        raise Unsupported("attribute store on %r" % (k,))
    cls = k[1]
    sch = S.CLASSES.get(cls)
    if sch is None:
        raise ContractError("no schema for " + cls)
    if attr in sch.fields:
        key, fk = eng.field_key(cls, attr)
        v = coerce(eng, st, value, fk, cls + '.' + attr)
        eng.check_store(st, base.t, key, node, 'attr:' + attr)
        st.heap.wr(key, base.t, v.t)
        return
    mod = eng.repo.module(sch.qualname.rsplit('.', 1)[0])
    if (cls + '.' + attr + '.setter') in mod.functions:
        calls.call_repo(eng, sch.qualname + '.' + attr + '.setter', [base, value], {}, st, node)
        return
    raise ContractError("attribute %s.%s not in schema" % (cls, attr))


def hoist_comp(eng, value):
    """[elt for t in it if c] with an allocating element or a filter, used directly as the value of an
    assignment/return: rewritten into  _compN = []; for t in it: (if c:) _compN.append(elt)  and treated as
    a loop with the contract given under ghost['comps'][N] (inv / modifies / kind)."""
    f = eng.frame
    if not isinstance(value, ast.ListComp):
        return None
    ordn = f.comp_ord.get(id(value))
    cc = (f.contract.ghost.get('comps') or {}).get(ordn)
    if cc is None:
        return None
    if len(value.generators) != 1:
        raise Unsupported("nested comprehension")
    gen = value.generators[0]
    name = '_comp%d' % ordn
    init = ast.Assign(targets=[ast.Name(id=name, ctx=ast.Store())], value=ast.List(elts=[], ctx=ast.Load()))
    app = ast.Expr(value=ast.Call(func=ast.Attribute(value=ast.Name(id=name, ctx=ast.Load()), attr='append', ctx=ast.Load()),
                                  args=[value.elt], keywords=[]))
    body = [app]
    for cond in reversed(gen.ifs):
        body = [ast.If(test=cond, body=body, orelse=[])]
    loop = ast.For(target=gen.target, iter=gen.iter, body=body, orelse=[])
    for n in (init, loop):
        ast.copy_location(n, value)
        ast.fix_missing_locations(n)
    key = 'c%d' % ordn
    f.loop_ord[id(loop)] = key
    lc = dict(cc)
    lc.setdefault('modifies', [name])
    f.contract.loops[key] = lc
    f.contract.ghost['kind:' + name] = cc['kind']
    return [init, loop], ast.copy_location(ast.Name(id=name, ctx=ast.Load()), value)


def with_hoisting(eng, node, st, attr, cont):
    h = hoist_comp(eng, getattr(node, attr))
    if h is None:
        return None
    pre, newval = h
    outs = []
    for (o, s) in exec_block(eng, pre, st):
        if o[0] != 'normal':
            outs.append((o, s))
            continue
        clone = type(node)(**{k: getattr(node, k) for k in node._fields})
        setattr(clone, attr, newval)
        ast.copy_location(clone, node)
        outs += cont(eng, clone, s)
    return outs


def st_AnnAssign(eng, node, st):
    """`x: T = v` is `x = v` (annotations are dropped, as everywhere else); a bare `x: T` declares nothing"""
    if node.value is None:
        return [(NORMAL, st)]
    plain = ast.Assign(targets=[node.target], value=node.value)
    ast.copy_location(plain, node)
    ast.fix_missing_locations(plain)
    return st_Assign(eng, plain, st)


def st_Assign(eng, node, st):
    h = with_hoisting(eng, node, st, 'value', st_Assign)
    if h is not None:
        return h
    # element-kind hint for empty list literals comes from the contract's `locals`
    hint = None
    if len(node.targets) == 1 and isinstance(node.targets[0], ast.Name):
        hint = eng.frame.contract.ghost.get('kind:' + node.targets[0].id)
    hk = calls.parse_kind(hint) if hint else None
    st.hint_ek = hk[1] if (hk and len(hk) > 1) else None
    try:
        v = eng.ev(node.value, st)
    finally:
        st.hint_ek = None
    if hk and v.k == 'none' and isinstance(hk, tuple):
        v = Val(hk, z3.IntVal(0))       # x = None for a variable declared with a (nullable) reference kind
    if hk and isinstance(v.k, tuple) and v.k[0] == 'list' and v.k[1] == 'none' and hk[0] == 'list':
        v = Val(hk, v.t)        # [None] * n declared as a list of (nullable) references
    for t in node.targets:
        assign_to(eng, st, t, v, node)
    outs = []
    flush_raises(eng, st, outs)
    outs.append((NORMAL, st))
    return outs


calls.parse_kind = __import__('pyvc.core', fromlist=['parse_kind']).parse_kind


def st_AugAssign(eng, node, st):
    tgt = node.target
    cur = eng.ev(tgt, st)
    rhs = eng.ev(node.value, st)
    if isinstance(cur.k, tuple) and cur.k[0] == 'arr':
        from . import models
        models.arr_inplace(eng, st, cur, node.op, rhs, node)
    elif isinstance(cur.k, tuple) and cur.k[0] == 'list':
        from . import models
        models.list_extend(eng, st, cur, [rhs], {}, node)
    else:
        v = eng.arith(node.op, cur, rhs, st, node)
        assign_to(eng, st, tgt, v, node)
    outs = []
    flush_raises(eng, st, outs)
    outs.append((NORMAL, st))
    return outs


def st_Return(eng, node, st):
    if node.value is not None:
        h = with_hoisting(eng, node, st, 'value', st_Return)
        if h is not None:
            return h
    v = eng.ev(node.value, st) if node.value is not None else NONE
    outs = []
    flush_raises(eng, st, outs)
    outs.append((('return', v), st))
    return outs


def st_Raise(eng, node, st):
    exc = node.exc
    name = None
    if isinstance(exc, ast.Call):
        parts = eng.resolve_dotted(exc.func)
        name = parts[-1] if parts else None
    elif isinstance(exc, ast.Name):
        name = exc.id
    if name is None:
        raise Unsupported("raise of a computed exception at line %d" % node.lineno)
    st.trail.append("raise %s@L%d" % (name, node.lineno))
    return [(('raise', name), st)]


def st_Assert(eng, node, st):
    c = eng.truth_of(st, eng.ev(node.test, st))
    outs = []
    flush_raises(eng, st, outs)
    eng.oblige(st, "assert@L%d" % node.lineno, 'assert', c, node)
    st.assume(c)
    outs.append((NORMAL, st))
    return outs


def st_If(eng, node, st):
    cv = eng.ev(node.test, st)
    c = eng.truth_of(st, cv) if cv.k != 'bool' else cv.t
    outs = []
    flush_raises(eng, st, outs)
    c = z3.simplify(c)
    if z3.is_true(c):
        return outs + exec_block(eng, node.body, st)
    if z3.is_false(c):
        return outs + exec_block(eng, node.orelse, st)
    a, b = st, st.copy()
    a.assume(c)
    a.trail.append("L%d:then" % node.lineno)
    b.assume(z3.Not(c))
    b.trail.append("L%d:else" % node.lineno)
    outs += exec_block(eng, node.body, a)
    outs += exec_block(eng, node.orelse, b)
    return outs


def st_Break(eng, node, st):
    return [(('break',), st)]


def st_Continue(eng, node, st):
    return [(('continue',), st)]


def st_FunctionDef(eng, node, st):
    st.env[node.name] = Val('func', None, ('closure', node, None))
    return [(NORMAL, st)]


def st_Try(eng, node, st):
    if node.orelse:
        raise Unsupported("try/else at line %d" % node.lineno)
    if node.finalbody:
        # try: BODY (except ...) finally: FIN  ==  run BODY(+handlers); on every outcome run FIN, then continue the outcome
        inner = ast.Try(body=node.body, handlers=node.handlers, orelse=[], finalbody=[])
        ast.copy_location(inner, node)
        outs0 = st_Try(eng, inner, st) if node.handlers else exec_block(eng, node.body, st)
        res = []
        for (o, s_) in outs0:
            for (o2, s2) in exec_block(eng, node.finalbody, s_):
                res.append((o if o2[0] == 'normal' else o2, s2))
        return res
    handled = set()
    for h in node.handlers:
        if not isinstance(h.type, ast.Name):
            raise Unsupported("except clause type at line %d" % node.lineno)
        handled.add(h.type.id)
    eng.frame.try_handlers.append(handled)
    try:
        outs = exec_block(eng, node.body, st)
    finally:
        eng.frame.try_handlers.pop()
    res = []
    for (o, s) in outs:
        catch_all = handled & {'Exception', 'BaseException'}
        if o[0] == 'raise' and (o[1] in handled or catch_all):
            h = [x for x in node.handlers if x.type.id == o[1] or x.type.id in ('Exception', 'BaseException')][0]
            if h.name:
                s.env[h.name] = Val(('opaque', 'exception'), z3.IntVal(0))
            s.trail.append("except %s@L%d" % (o[1], h.lineno))
            res += exec_block(eng, h.body, s)
        elif o[0] == 'raise' and o[1] == 'WorkerError' and node.handlers:
            # a worker may fail with an exception of ANY type (the task re-raises what the solver raised): a handler for a
            # specific type may therefore catch it.  Both outcomes are explored: it passes by, or each handler takes it.
            res.append((o, s.copy()))
            for h in node.handlers:
                s2 = s.copy()
                if h.name:
                    s2.env[h.name] = Val(('opaque', 'exception'), z3.IntVal(0))
                s2.trail.append("except %s@L%d catches a worker failure of that type" % (h.type.id, h.lineno))
                res += exec_block(eng, h.body, s2)
        else:
            res.append((o, s))
    return res


# ---------------------------------------------------------------- loops
def inplace_only_names(body):
    """names that are only ever the target of an augmented assignment in `body` (x += ...): for arrays and
    lists this mutates the object in place and leaves the binding unchanged"""
    aug, other = set(), set()

    class W(ast.NodeVisitor):
        def visit_AugAssign(self, n):
            if isinstance(n.target, ast.Name):
                aug.add(n.target.id)
            self.visit(n.value)

        def visit_Name(self, n):
            if isinstance(n.ctx, ast.Store):
                other.add(n.id)

        def visit_FunctionDef(self, n):
            other.add(n.name)
    for s_ in body:
        W().visit(s_)
    return aug - other


def assigned_names(body):
    out = set()

    class V(ast.NodeVisitor):
        def visit_Name(self, n):
            if isinstance(n.ctx, ast.Store):
                out.add(n.id)

        def visit_FunctionDef(self, n):
            out.add(n.name)

        def visit_Lambda(self, n):
            pass

        def visit_ListComp(self, n):
            pass
    for s in body:
        V().visit(s)
    return out


class Domain:
    pass


def iter_domain(eng, it, st, node):
    """-> dict(kind, start, stop, step, bind(idx_term, st) -> value for target)"""
    d = Domain()
    if isinstance(it, ast.Call):
        parts = eng.resolve_dotted(it.func)
        fname = parts[-1] if parts else None
        if parts and len(parts) == 2 and parts[0] == 'numba_guard' and fname == 'prange':
            fname = 'range'
            d.prange = True
        if fname == 'range' and (len(parts) == 1 or getattr(d, 'prange', False)):
            a = [to_int(eng.ev(x, st)) for x in it.args]
            if len(a) == 1:
                d.start, d.stop, d.step = z3.IntVal(0), a[0], 1
            elif len(a) == 2:
                d.start, d.stop, d.step = a[0], a[1], 1
            else:
                stp = z3.simplify(a[2])
                if not z3.is_int_value(stp) or stp.as_long() == 0:
                    raise Unsupported("range with non-constant step")
                d.start, d.stop, d.step = a[0], a[1], stp.as_long()
            d.bind = lambda idx, s: vint(idx)
            d.kind = 'range'
            return d
        if fname == 'enumerate' and len(parts) == 1:
            seq = eng.ev(it.args[0], st)
            get, n = seq_access(eng, seq, st, node)
            d.start, d.stop, d.step, d.kind = z3.IntVal(0), n, 1, 'seq'
            d.bind = lambda idx, s: vtuple([vint(idx), get(idx, s)])
            return d
        if fname == 'zip' and len(parts) == 1:
            seqs = [eng.ev(x, st) for x in it.args]
            acc = [seq_access(eng, q, st, node) for q in seqs]
            n = acc[0][1]
            for (_, m) in acc[1:]:
                n = z3.If(m < n, m, n)
            d.start, d.stop, d.step, d.kind = z3.IntVal(0), n, 1, 'seq'
            d.bind = lambda idx, s: vtuple([g(idx, s) for (g, _) in acc])
            return d
    seq = eng.ev(it, st)
    if isinstance(seq.k, tuple) and seq.k[0] == 'set':
        d.kind = 'set'
        d.set = seq
        return d
    get, n = seq_access(eng, seq, st, node)
    d.start, d.stop, d.step, d.kind = z3.IntVal(0), n, 1, 'seq'
    d.bind = lambda idx, s: get(idx, s)
    return d


def seq_access(eng, seq, st, node):
    k = seq.k
    if isinstance(k, tuple) and k[0] == 'list':
        n = eng.list_len(st, seq)
        st.assume(n >= 0)

        def get(idx, s, seq=seq):
            # python iterates by index over the live list
            v = eng.list_get(s, seq, idx)
            if is_ref_kind(v.k):
                b = s.heap.bound('el:ref')
                s.assume(z3.And(v.t >= 0, v.t < s.heap.alloc, z3.Implies(seq.t < b, v.t < b)))
                if s.heap.known_below(seq.t, s.heap.bound_pos('el:ref')):
                    s.heap.note_below(v.t, s.heap.bound_pos('el:ref'))
            return v
        return get, n
    if isinstance(k, tuple) and k[0] == 'pylist':
        raise Unsupported("iteration over heterogeneous literal")
    if isinstance(k, tuple) and k[0] == 'arr':
        from . import models
        n = eng.arr_shape(st, seq)[0]

        def get(idx, s, seq=seq):
            return models.arr_index_int(eng, s, seq, idx)
        return get, n
    raise Unsupported("iteration over %r at line %d" % (k, node.lineno))


def loop_contract(eng, node):
    f = eng.frame
    ordn = f.loop_ord.get(id(node))
    if ordn is None:
        raise Unsupported("loop inside nested function")
    lc = f.contract.loops.get(ordn)
    if lc is None:
        raise ContractError("loop %d of %s has no loop contract" % (ordn, f.qualname))
    return ordn, lc


def havoc_names(eng, st, names):
    for n in sorted(names):
        v = st.env.get(n)
        if v is None:
            continue
        st.env[n] = havoc_val(eng, st, v, n)


def havoc_val(eng, st, v, n):
    if v.k == ('ghostset',):
        return Val(('ghostset',), z3.Const(fresh_name(n), z3.ArraySort(I, B)))
    if v.t is not None and v.k != 'none':
        nv = eng.fresh(v.k, n)
        if is_ref_kind(v.k):
            st.assume(z3.And(nv.t >= 0, nv.t < st.heap.alloc))
        return nv
    if isinstance(v.k, tuple) and v.k[0] == 'tuple':
        return vtuple([havoc_val(eng, st, x, n) for x in v.py])
    if v.k == 'none':
        # a variable that is None before the loop and is assigned in it: kind comes from the contract
        gk = eng.frame.contract.ghost.get('kind:' + n)
        if gk is None:
            raise ContractError("variable %s is None before a loop that assigns it; declare ghost 'kind:%s'" % (n, n))
        nv = eng.fresh(calls.parse_kind(gk), n)
        st.assume(z3.And(nv.t >= 0, nv.t < st.heap.alloc))
        return nv
    return v


def check_inv(eng, st, lc, ordn, phase, node, extra_env=None):
    env = dict(st.env)
    if extra_env:
        env.update(extra_env)
    f = eng.frame
    for label, clause in f.contract.labelled(lc.get('inv', []), 'inv'):
        try:
            t = eval_bool(eng, clause, env, st, old=(f.entry_env, f.entry_heap))
        except (ContractError, Unsupported) as e:
            # the clause is not even well-typed on this path (e.g. an accumulator that is still the int 0):
            # acceptable only if the path is infeasible
            # (kind deadpath: if the path is feasible the loop contract simply no longer matches the code -- e.g. a renamed
            # local -- and nothing is decided about the property)
            eng.oblige(st, "loop%s:%s:%s:path-where-clause-is-ill-typed-is-infeasible" % (ordn, label, phase),
                       'deadpath', z3.BoolVal(False), node)
            continue
        eng.oblige(st, "loop%s:%s:%s" % (ordn, label, phase), 'inv:' + phase, t, node, hints=lc.get('hints', ()))


def assume_inv(eng, st, lc, extra_env=None):
    env = dict(st.env)
    if extra_env:
        env.update(extra_env)
    f = eng.frame
    for label, clause in f.contract.labelled(lc.get('inv', []), 'inv'):
        st.assume(eval_bool(eng, clause, env, st, old=(f.entry_env, f.entry_heap)))


def run_loop(eng, node, st, ordn, lc, idxname, d, guard_fn, bind_fn, step_fn, extra_names=()):
    """Generic cut-point treatment.  guard_fn(state)->z3 Bool, bind_fn(state) binds targets,
    step_fn(state) advances the index."""
    f = eng.frame
    outs = []
    # ghost variables of the loop (name -> init clause); updated by 'ghost_update' clauses at end of body
    for g, init in (lc.get('ghost') or {}).items():
        st.env[g] = eval_clause(eng, init, st.env, st, old=(f.entry_env, f.entry_heap))
    # 1. invariant holds on entry (optional proof steps first)
    for label, clause in f.contract.labelled(lc.get('lemmas_init', []), 'initstep'):
        t = eval_bool(eng, clause, st.env, st, old=(f.entry_env, f.entry_heap))
        eng.oblige(st, "loop%s:%s" % (ordn, label), 'proofstep', t, node)
        st.assume(t)
    check_inv(eng, st, lc, ordn, 'init', node)
    entry_alloc = st.heap.alloc
    try:
        mods = calls.eval_assign_targets(eng, lc.get('modifies', []), st.env, st)
    except ContractError as e:
        # the loop contract does not type-check in this state: only acceptable on an infeasible path
        eng.oblige(st, "loop%s:path-where-loop-contract-is-ill-typed-is-infeasible" % ordn, 'deadpath', z3.BoolVal(False), node)
        return []
    mods_frame = []
    from .verify import frame_entry
    for m in mods:
        mods_frame.append(frame_entry(eng, st, m))
    # 2. arbitrary iteration
    head = st.copy()
    names = assigned_names(node.body) | set((lc.get('ghost') or {}).keys()) | set(extra_names)
    if idxname:
        names.add(idxname)
    na = z3.Int(fresh_name('alloc'))
    head.assume(na >= head.heap.alloc)
    head.heap.new_epoch(na)
    for n_ in inplace_only_names(node.body):
        v_ = head.env.get(n_)
        if v_ is not None and isinstance(v_.k, tuple) and v_.k[0] in ('arr', 'list'):
            names.discard(n_)       # mutated in place: same object, contents covered by `modifies`
    havoc_names(eng, head, names)
    if idxname and idxname.startswith('_k'):
        head.env['_k'] = head.env[idxname]      # `_k` is the contract-visible alias of the hidden index
    for m in mods:
        calls.havoc_target(eng, head, m)
    if d is not None and d.kind in ('range', 'seq'):
        idx = head.env[idxname].t
        if d.step > 0:
            head.assume(z3.And(idx >= d.start, z3.Or(idx <= d.stop, idx == d.start)))
            if d.step != 1:
                kk = z3.Int(fresh_name('kk'))
                head.assume(z3.And(kk >= 0, idx == d.start + d.step * kk))
        else:
            head.assume(z3.And(idx <= d.start, z3.Or(idx >= d.stop, idx == d.start)))
            if d.step != -1:
                kk = z3.Int(fresh_name('kk'))
                head.assume(z3.And(kk >= 0, idx == d.start + d.step * kk))
    assume_inv(eng, head, lc)
    # 3. exit branch
    ex = head.copy()
    g = guard_fn(ex)
    ex.assume(z3.Not(g))
    ex.trail.append("loop%s:exit" % ordn)
    for label, clause in f.contract.labelled(lc.get('lemmas_exit', []), 'exitstep'):
        t = eval_bool(eng, clause, ex.env, ex, old=(f.entry_env, f.entry_heap))
        eng.oblige(ex, "loop%s:%s" % (ordn, label), 'proofstep', t, node)
        ex.assume(t)
    # 4. body branch
    body = head
    gb = guard_fn(body)
    outs_pre = []
    flush_raises(eng, body, outs_pre)
    body.assume(gb)
    body.trail.append("loop%s:body" % ordn)
    bind_fn(body)
    for gname, init in (lc.get('body_ghost') or {}).items():
        body.env[gname] = eval_clause(eng, init, body.env, body, old=(f.entry_env, f.entry_heap))
    eng.oblige(body, "loop%s:cover:body" % ordn, 'cover', z3.BoolVal(False), node, expect_sat=True)
    dec0 = None
    if lc.get('decreases'):
        dec0 = to_int(eval_clause(eng, lc['decreases'], body.env, body, old=(f.entry_env, f.entry_heap)))
    f.loop_frames.append((entry_alloc, mods_frame, ordn))
    try:
        bouts = exec_block(eng, node.body, body)
    finally:
        f.loop_frames.pop()
    for (o, s) in bouts:
        if o[0] in ('normal', 'continue'):
            # instances of lemmas proved separately (lemma layer); listed in the evidence as assumptions
            for label, clause in f.contract.labelled(lc.get('assume_lemmas', []), 'lemma-instance'):
                s.assume(eval_bool(eng, clause, s.env, s, old=(f.entry_env, f.entry_heap)))
                eng.assumed.add("lemma instance assumed in %s loop %s: %s" % (f.qualname, ordn, label))
            # intermediate proof steps: each is an obligation of its own, then available as a hypothesis
            for label, clause in f.contract.labelled(lc.get('lemmas_end', []), 'step'):
                t = eval_bool(eng, clause, s.env, s, old=(f.entry_env, f.entry_heap))
                eng.oblige(s, "loop%s:%s" % (ordn, label), 'proofstep', t, node)
                s.assume(t)
            for gname, upd in (lc.get('ghost_update') or {}).items():
                s.env[gname] = eval_clause(eng, upd, s.env, s, old=(f.entry_env, f.entry_heap))
            step_fn(s)
            check_inv(eng, s, lc, ordn, 'preserved', node)
            if dec0 is not None:
                dec1 = to_int(eval_clause(eng, lc['decreases'], s.env, s, old=(f.entry_env, f.entry_heap)))
                eng.oblige(s, "loop%s:term" % ordn, 'term', z3.And(dec0 >= 0, dec1 < dec0), node)
        elif o[0] == 'break':
            s.trail.append("loop%s:break" % ordn)
            for gname, upd in (lc.get('ghost_break') or {}).items():
                s.env[gname] = eval_clause(eng, upd, s.env, s, old=(f.entry_env, f.entry_heap))
            outs.append((NORMAL, s))
        else:
            outs.append((o, s))
    outs.append((NORMAL, ex))
    return outs_pre + outs


def st_For(eng, node, st):
    if node.orelse:
        raise Unsupported("for/else")
    ordn, lc = loop_contract(eng, node)
    d = iter_domain(eng, node.iter, st, node)
    outs = []
    flush_raises(eng, st, outs)
    if d.kind == 'set':
        return outs + for_set(eng, node, st, ordn, lc, d)
    if d.kind == 'range' and isinstance(node.target, ast.Name):
        idxname = node.target.id
    else:
        idxname = '_k%s' % ordn
    st.env[idxname] = vint(d.start)
    if d.kind != 'range' or idxname.startswith('_k'):
        st.env['_k'] = st.env[idxname]

    def guard(s):
        i = s.env[idxname].t
        return i < d.stop if d.step > 0 else i > d.stop

    def bind(s):
        if d.kind == 'seq' or idxname.startswith('_k'):
            s.env['_k'] = s.env[idxname]
            v = d.bind(s.env[idxname].t, s)
            assign_to(eng, s, node.target, v, node)

    def step(s):
        s.env[idxname] = vint(s.env[idxname].t + d.step)
        if idxname.startswith('_k'):
            s.env['_k'] = s.env[idxname]

    if lc.get('peel'):
        # first iteration executed on its own (a variable may change kind in it, e.g. `acc = 0; acc += array`),
        # the remaining iterations are cut at the invariant
        ex = st.copy()
        g0 = _sync(guard, idxname)(ex)
        ex.assume(z3.Not(g0))
        ex.trail.append("loop%s:zero-iterations" % ordn)
        outs.append((NORMAL, ex))
        first = st
        first.assume(_sync(guard, idxname)(first))
        first.trail.append("loop%s:first" % ordn)
        _sync(bind, idxname)(first)
        import copy as _copy
        d2 = _copy.copy(d)
        d2.start = d.start + d.step
        for (o, s1) in exec_block(eng, node.body, first):
            if o[0] in ('normal', 'continue'):
                step(s1)
                lc2 = dict(lc)
                outs += run_loop(eng, node, s1, ordn, lc2, idxname, d2, _sync(guard, idxname), _sync(bind, idxname), step)
            elif o[0] == 'break':
                outs.append((NORMAL, s1))
            else:
                outs.append((o, s1))
        return outs
    # keep '_k' in sync on the havocked head: run_loop havocs idxname; alias after
    res = run_loop(eng, node, st, ordn, lc, idxname, d, _sync(guard, idxname), _sync(bind, idxname), step)
    return outs + res


def _sync(fn, idxname):
    def w(s):
        if idxname.startswith('_k'):
            s.env['_k'] = s.env[idxname]
        return fn(s)
    return w


def for_set(eng, node, st, ordn, lc, d):
    """Iteration over a set of ints in an UNKNOWN order.  Ghost `_visited` (membership array of the elements
    already handled); each iteration binds the target to an arbitrary member not yet visited; the loop
    ends when no unvisited member is left.  Contract clauses may use in_set(x, _visited) / in_set(x, S)."""
    if not isinstance(node.target, ast.Name):
        raise Unsupported("set iteration target")
    members0 = st.heap.rd('set:', d.set.t)
    tname = node.target.id
    st.env['_visited'] = Val(('ghostset',), z3.K(I, z3.BoolVal(False)))
    st.env[tname] = vint(z3.Int(fresh_name(tname)))
    phase = []

    def guard(s):
        # run_loop evaluates the guard first on the exit copy, then on the body copy
        vis = s.env['_visited'].t
        if not phase:
            phase.append(1)
            y = z3.Int(fresh_name('y'))
            return z3.Exists([y], z3.And(z3.Select(members0, y), z3.Not(z3.Select(vis, y))))
        x = z3.Int(fresh_name(tname))
        s.env[tname] = vint(x)
        return z3.And(z3.Select(members0, x), z3.Not(z3.Select(vis, x)))

    def step(s):
        s.env['_visited'] = Val(('ghostset',), z3.Store(s.env['_visited'].t, s.env[tname].t, z3.BoolVal(True)))

    return run_loop(eng, node, st, ordn, lc, None, None, guard, lambda s: None, step,
                    extra_names={'_visited', tname})


def st_While(eng, node, st):
    if node.orelse:
        raise Unsupported("while/else")
    ordn, lc = loop_contract(eng, node)

    def guard(s):
        v = eng.ev(node.test, s)
        return eng.truth_of(s, v) if v.k != 'bool' else v.t
    return run_loop(eng, node, st, ordn, lc, None, None, guard, lambda s: None, lambda s: None)
