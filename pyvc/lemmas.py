"""Code-independent lemmas.  A lemma's hypotheses are taken mechanically from contract text
(contract_facts evaluates the requires/ensures of a contract on symbolic inputs), so the chain
property <- lemma <- contract <- code has no hand-copied link.  Induction on the naturals is the one
trusted proof rule: base and step are separate queries."""
import time
import z3

from .core import State, Val, vtuple
from . import spec as S
from .engine import Engine, Frame
from .repo import Repo
from .verify import make_param, param_names
from .calls import eval_bool, fresh_of_kind
from .kinds import parse_kind
from . import solve


def contract_facts(qualname, eng=None):
    """-> (eng, st, env, pre_formulas, post_formulas) for the contract's clauses on symbolic inputs"""
    eng = eng or Engine(Repo())
    c = S.CONTRACTS[qualname]
    mod, fdef = eng.repo.find_function(qualname)
    f = Frame(mod, fdef, c, qualname)
    eng.frame = f
    st = State()
    st.assume(st.heap.alloc >= 1)
    nullable = set(c.ghost.get('nullable', ()))
    for n in param_names(fdef):
        st.env[n] = make_param(eng, st, n, c.params[n], n in nullable)
    f.entry_env = dict(st.env)
    f.entry_heap = st.heap.copy()
    pre = [eval_bool(eng, cl, st.env, st) for _, cl in c.labelled(c.requires, 'pre')]
    na = z3.Int('alloc_post')
    st.assume(na >= st.heap.alloc)
    st.heap.new_epoch(na)
    env = dict(st.env)
    env['result'] = fresh_of_kind(eng, st, c.returns, 'res') if c.returns is not None else None
    for g, gk in (c.ghost.get('return_kinds') or {}).items():
        env[g] = fresh_of_kind(eng, st, parse_kind(gk), 'ghost_' + g)
    post = {}
    for label, cl in c.labelled(c.ensures, 'post'):
        post[label] = eval_bool(eng, cl, env, st, old=(f.entry_env, f.entry_heap))
    return eng, st, env, pre, post


class LemmaOb:
    def __init__(self, name, hyps, goal):
        self.name, self.hyps, self.goal = name, list(hyps), goal
        self.kind, self.fn, self.lineno, self.trail, self.props, self.expect_sat, self.hints = 'lemma', '', 0, [], [], False, []


def discharge_lemmas(lemmas, timeout_s):
    obs = []
    for l in lemmas:
        for (name, hyps, goal) in l.builder():
            obs.append(LemmaOb("lemma:%s:%s" % (l.name, name), hyps, goal))
    return solve.discharge(obs, timeout_s=timeout_s)


LEAN_LEMMAS = [dict(name='lean:admm_kkt', props=['C02'], file='lemmas/admm_kkt.lean',
                    what="ADMM step equations (X-step prox equation, Z-step subgradient, U-step) imply the approximate-KKT identity "
                         "S - X^-1 + G = -rho (Z - Z_old) and G = rho U, in an arbitrary real module")]


def run_lean(entry, verif_root, timeout_s=900):
    """Lean 4 + Mathlib check of a code-independent lemma.  proved iff lean exits 0 with no error/sorry."""
    import os
    import subprocess
    path = os.path.join(verif_root, entry['file'])
    src = open(path).read()
    t0 = time.time()
    if 'sorry' in src or 'admit' in src:
        return dict(name=entry['name'], verdict=solve.UNKNOWN, time=0.0, backend='lean', info={'reason': 'sorry/admit in source'})
    try:
        p = subprocess.run(['lake', 'env', 'lean', path], cwd='/opt/veriftools/mathlib4', capture_output=True, text=True, timeout=timeout_s)
        ok = p.returncode == 0 and 'error' not in p.stdout and 'error' not in p.stderr
        return dict(name=entry['name'], verdict=solve.PROVED if ok else solve.UNKNOWN, time=time.time() - t0, backend='lean4+mathlib',
                    info=None if ok else {'reason': (p.stdout + p.stderr)[-600:]})
    except Exception as e:
        return dict(name=entry['name'], verdict=solve.UNKNOWN, time=time.time() - t0, backend='lean4+mathlib', info={'reason': repr(e)})
