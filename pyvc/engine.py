"""Symbolic executor: real function body + sidecar contract -> named obligations."""
import ast
import z3

from .core import (Val, NONE, vint, vreal, vbool, vtuple, to_real, to_int, truth, State, Heap, Obligation,
                   Unsupported, ContractError, fresh_name, sort_of, elem_tag, is_ref_kind, parse_kind, I, R, B,
                   ValSort, tuple_term, tuple_val)
from . import spec as S

TWO53 = 2 ** 53


def zand(xs):
    xs = [x for x in xs if not z3.is_true(x)]
    return z3.And(*xs) if len(xs) > 1 else (xs[0] if xs else z3.BoolVal(True))


class Frame:
    """Per-function-under-verification context."""

    def __init__(self, mod, fdef, contract, qualname):
        self.mod, self.fdef, self.contract, self.qualname = mod, fdef, contract, qualname
        self.entry_env = None
        self.entry_heap = None
        self.loop_ord = {}
        self.comp_ord = {}
        n = 0
        m = 0
        for node in ast.walk(fdef):
            pass
        # pre-order numbering of loops and comprehensions
        def number(node):
            nonlocal n, m
            for child in ast.iter_child_nodes(node):
                if isinstance(child, (ast.For, ast.While)):
                    n += 1
                    self.loop_ord[id(child)] = n
                if isinstance(child, (ast.ListComp, ast.DictComp, ast.GeneratorExp)):
                    m += 1
                    self.comp_ord[id(child)] = m
                if isinstance(child, (ast.FunctionDef, ast.Lambda)) and child is not fdef:
                    continue
                number(child)
        number(fdef)
        self.assign_refs = []       # evaluated assigns targets: ('ref', term) / ('field', term, key)
        self.loop_frames = []       # stack of (alloc_at_entry, modifies list)
        self.exc_ok = set(contract.raises)
        self.try_handlers = []


class Engine:
    def __init__(self, repo):
        self.repo = repo
        self.obls = []
        self.assumed = set()        # names of trusted models / contracts used
        self.frame = None
        self.unsupported = []
        from . import models
        self.models = models.MODELS
        self.methods = models.METHODS
        self._uf = {}
        self.infer_schema_fields()

    def infer_schema_fields(self):
        """A class may have gained a plain-data field the sidecar schema does not know yet.  Its kind is read from the
        source (annotated __init__ parameter stored into self.<name>, or an annotated dataclass field) so that the functions
        touching it stay inside the verified subset; nothing is assumed about its value."""
        prim = {'bool': 'bool', 'int': 'int', 'float': 'real'}
        for cname, sch in S.CLASSES.items():
            if '<' in sch.qualname:
                continue
            try:
                mod = self.repo.module(sch.qualname.rsplit('.', 1)[0])
            except ContractError:
                continue
            cdef = mod.classes.get(cname) if hasattr(mod, 'classes') else None
            found = {}
            init = mod.functions.get(cname + '.__init__')
            if init is not None:
                ann = {a.arg: a.annotation.id for a in init.args.args + init.args.kwonlyargs
                       if isinstance(a.annotation, ast.Name) and a.annotation.id in prim}
                for n in ast.walk(init):
                    if (isinstance(n, ast.Assign) and len(n.targets) == 1 and isinstance(n.targets[0], ast.Attribute) and
                            isinstance(n.targets[0].value, ast.Name) and n.targets[0].value.id == 'self' and
                            isinstance(n.value, ast.Name) and n.value.id in ann):
                        found[n.targets[0].attr] = prim[ann[n.value.id]]
            if isinstance(cdef, ast.ClassDef):
                for n in cdef.body:
                    if isinstance(n, ast.AnnAssign) and isinstance(n.target, ast.Name) and isinstance(n.annotation, ast.Name) \
                            and n.annotation.id in prim:
                        found[n.target.id] = prim[n.annotation.id]
            for f, kind in found.items():
                if f not in sch.fields and ('_' + f) not in sch.fields:
                    sch.fields[f] = parse_kind(kind)
                    self.assumed.add("field %s.%s is not in the contract schema: kind %s read from its annotation in the source" % (cname, f, kind))

    # ------------------------------------------------------------ utilities
    def truth_of(self, st, v):
        """Python truthiness; lists / sets / 1-D arrays of the heap are true iff non-empty (None is false)"""
        if isinstance(v.k, tuple) and v.k[0] in ('list', 'set') and v.t is not None:
            n = self.list_len(st, v) if v.k[0] == 'list' else z3.Select(st.heap.get('len'), v.t)
            return z3.And(v.t != 0, n > 0)
        return truth(v)

    def uf(self, name, *sorts):
        key = (name,) + tuple(str(s) for s in sorts)
        if key not in self._uf:
            self._uf[key] = z3.Function(name, *sorts)
        return self._uf[key]

    def oblige(self, st, name, kind, goal, node=None, expect_sat=False, hints=()):
        f = self.frame
        full = "%s:%s" % (f.qualname.replace('fast_ticc.', ''), name)
        self.obls.append(Obligation(full, kind, f.qualname, getattr(node, 'lineno', 0), st.hyps(), goal,
                                    st.trail, f.contract.props, expect_sat, list(hints) + list(f.contract.hints)))

    def fresh(self, k, base='v'):
        return Val(k, z3.Const(fresh_name(base), sort_of(k)))

    def new_ref(self, st):
        return st.heap.new_ref()

    def ref_map_axiom(self, st, key):
        """global well-formedness of a reference-valued heap component: every stored reference is allocated
        (below the allocation mark at the time the component's base value was introduced)"""
        base, log = st.heap._entry(key)
        gk = 'refax:%s:%d' % (key, base.get_id())
        if gk in st.ghost:
            return
        st.ghost[gk] = True
        bound = getattr(st.heap, 'base_alloc', {}).get(key, st.heap.alloc0)
        r, i = z3.Int(fresh_name('r')), z3.Int(fresh_name('i'))
        if key.startswith('f:'):
            e = z3.Select(base, r)
            st.pc.append(z3.ForAll([r], z3.Implies(r < bound, z3.And(0 <= e, e < bound)), patterns=[e]))
        elif key == 'el:ref':
            e = z3.Select(z3.Select(base, r), i)
            st.pc.append(z3.ForAll([r, i], z3.Implies(r < bound, z3.And(0 <= e, e < bound)), patterns=[e]))

    def assume_valid_ref(self, st, v, optional=False):
        if is_ref_kind(v.k):
            lo = z3.IntVal(0) if optional else z3.IntVal(1)
            st.assume(z3.And(v.t >= lo, v.t < st.heap.alloc))

    # lists ------------------------------------------------------------
    def list_len(self, st, v):
        if v.py is not None and isinstance(v.py, tuple) and v.py[0] == 'vallist':
            return v.py[1]
        return st.heap.rd('len', v.t)

    def list_arr(self, st, v):
        if v.py is not None and isinstance(v.py, tuple) and v.py[0] == 'vallist':
            return v.py[2]
        return st.heap.rd('el:' + elem_tag(v.k[1]), v.t)

    def list_get(self, st, v, i):
        e = z3.Select(self.list_arr(st, v), i)
        if isinstance(v.k[1], tuple) and v.k[1][0] == 'tuple':
            return tuple_val(v.k[1], e)
        if is_ref_kind(v.k[1]):
            self.ref_map_axiom(st, 'el:ref')
        return Val(v.k[1], e)

    def mk_list(self, st, ek, length, content):
        if st.spec:     # contract clauses build VALUES: nothing is allocated, the heap is not touched
            return Val(('list', ek), None, ('vallist', length, content))
        r = self.new_ref(st)
        st.heap.wr('len', r, length)
        st.heap.wr('el:' + elem_tag(ek), r, content)
        return Val(('list', ek), r)

    def const_array(self, ek, items):
        s = sort_of(ek)
        items = [Val(it.k, self.elem_term(it)) for it in items]
        a = z3.K(I, items[0].t if items else (z3.IntVal(0) if s == I else z3.Const(fresh_name('dflt'), s)))
        for n, it in enumerate(items):
            a = z3.Store(a, n, it.t)
        return a

    def elem_term(self, v):
        if isinstance(v.k, tuple) and v.k[0] == 'tuple':
            return tuple_term(v)
        return v.t

    # arrays -----------------------------------------------------------
    def mk_arr(self, st, ndim, ek, shape, content):
        if st.spec:
            return Val(('arr', ndim, ek), None, ('valarr', list(shape), content))
        r = self.new_ref(st)
        st.heap.wr('sh0', r, shape[0])
        if ndim == 2:
            st.heap.wr('sh1', r, shape[1])
        st.heap.wr('d%d:%s' % (ndim, elem_tag(ek)), r, content)
        return Val(('arr', ndim, ek), r)

    def arr_shape(self, st, v):
        if v.py is not None and isinstance(v.py, tuple) and v.py[0] == 'valarr':
            return list(v.py[1])
        s0 = st.heap.rd('sh0', v.t)
        sh = [s0] if v.k[1] == 1 else [s0, st.heap.rd('sh1', v.t)]
        key = 'shape>=0:%s:%s' % (v.t.sexpr(), s0.get_id())
        if key not in st.ghost:
            st.ghost[key] = True
            for s_ in sh:
                st.pc.append(s_ >= 0)
        return sh

    def arr_data(self, st, v):
        if v.py is not None and isinstance(v.py, tuple) and v.py[0] == 'valarr':
            return v.py[2]
        return st.heap.rd('d%d:%s' % (v.k[1], elem_tag(v.k[2])), v.t)

    def norm_index(self, st, i, n, node, what='index'):
        """Python index normalisation with bounds obligation (-n <= i < n)."""
        if st.spec:
            return i        # contract clauses index mathematically (no wrap-around, no obligation)
        self.oblige(st, "bounds@L%d" % getattr(node, 'lineno', 0), 'bounds',
                    z3.And(i >= -n, i < n), node)
        st.assume(z3.And(i >= -n, i < n))
        if z3.is_int_value(i) and i.as_long() >= 0:
            return i
        return z3.If(i < 0, i + n, i)

    # heap stores with frame obligations ------------------------------
    def check_store(self, st, ref, key, node, what):
        """Every store into the heap: target must be fresh (allocated in this call) or named in assigns."""
        f = self.frame
        if st.spec:
            raise Unsupported("store in spec expression")
        ok = [ref >= f.entry_heap.alloc]
        for a in f.assign_refs:
            if a[0] == 'ref':
                ok.append(ref == a[1])
            elif a[0] == 'field' and key == a[2]:
                ok.append(ref == a[1])
            elif a[0] == 'fieldall' and key == a[1]:
                ok.append(z3.BoolVal(True))
            elif a[0] == 'each' and key == a[3]:
                q = z3.Int(fresh_name('q'))
                ok.append(z3.Exists([q], z3.And(0 <= q, q < a[1], z3.Select(a[2], q) == ref)))
        self.oblige(st, "frame:%s@L%d" % (what, getattr(node, 'lineno', 0)), 'frame', z3.Or(*ok), node)
        for (lalloc, mods, ordn) in f.loop_frames:
            okl = [ref >= lalloc]
            for a in mods:
                if a[0] == 'ref':
                    okl.append(ref == a[1])
                elif a[0] == 'field' and key == a[2]:
                    okl.append(ref == a[1])
                elif a[0] == 'fieldall' and key == a[1]:
                    okl.append(z3.BoolVal(True))
                elif a[0] == 'each' and key == a[3]:
                    q = z3.Int(fresh_name('q'))
                    okl.append(z3.Exists([q], z3.And(0 <= q, q < a[1], z3.Select(a[2], q) == ref)))
                elif a[0] == 'block':
                    okl.append(z3.And(a[1] <= ref, ref < a[1] + a[2]))
                elif a[0] == 'eachlist' and key is None:
                    q = z3.Int(fresh_name('q'))
                    okl.append(z3.Exists([q], z3.And(0 <= q, q < a[1], z3.Select(a[2], q) == ref)))
            self.oblige(st, "loop%s:modifies:%s@L%d" % (ordn, what, getattr(node, 'lineno', 0)), 'frame',
                        z3.Or(*okl), node)

    # ------------------------------------------------------------ name resolution
    def resolve_dotted(self, node):
        """ast Name/Attribute chain -> dotted string through the module's imports, or None."""
        parts = []
        while isinstance(node, ast.Attribute):
            parts.append(node.attr)
            node = node.value
        if not isinstance(node, ast.Name):
            return None
        parts.append(node.id)
        parts.reverse()
        return parts

    def resolve_callable(self, node, st):
        """Returns ('model', name) | ('contract', qualname) | ('local', Val) | None"""
        parts = self.resolve_dotted(node)
        if parts is None:
            return None
        head = parts[0]
        mod = self.frame.mod
        if head in st.env:
            if len(parts) == 1 and st.env[head].k == 'func':
                return ('local', st.env[head])
            return None
        if head in mod.imports:
            dotted = '.'.join([mod.imports[head]] + parts[1:])
        elif len(parts) == 1 and head in mod.functions:
            dotted = mod.qual + '.' + head
        elif head in mod.classes:
            dotted = mod.qual + '.' + '.'.join(parts)
        elif len(parts) == 1:
            dotted = 'builtins.' + head
        else:
            return None
        if dotted.startswith('fast_ticc'):
            # package __init__ re-exports: fast_ticc.admm.admm_optimize_theta
            if dotted == 'fast_ticc.admm.admm_optimize_theta':
                dotted = 'fast_ticc.admm.front_end.admm_optimize_theta'
            return ('contract', dotted)
        return ('model', dotted)

    # ------------------------------------------------------------ expressions
    def ev(self, node, st):
        from . import models
        models._CUR[0] = st
        m = getattr(self, 'ev_' + type(node).__name__, None)
        if m is None:
            raise Unsupported("expression %s at line %s" % (type(node).__name__, getattr(node, 'lineno', '?')))
        return m(node, st)

    def ev_Constant(self, node, st):
        v = node.value
        if isinstance(v, bool):
            return vbool(v)
        if isinstance(v, int):
            return vint(v)
        if isinstance(v, float):
            return vreal(v)
        if v is None:
            return NONE
        if isinstance(v, str):
            return Val('str', None, v)
        raise Unsupported("constant %r" % (v,))

    def ev_JoinedStr(self, node, st):
        return Val('str', None, '<f-string>')

    def ev_Name(self, node, st):
        n = node.id
        if n in st.env:
            return st.env[n]
        if st.spec and n in st.spec_env:
            return st.spec_env[n]
        if n in ('True', 'False'):
            return vbool(n == 'True')
        mod = self.frame.mod
        if n in mod.globals and not st.spec:
            g = mod.globals[n]
            if isinstance(g, ast.Constant):
                return self.ev_Constant(g, st)
            return Val(('opaque', 'global:' + n), z3.IntVal(0), n)
        if n in mod.functions or n in mod.imports or n in mod.classes or n in ('list', 'dict', 'set', 'int', 'float', 'len', 'range', 'sorted'):
            return Val('func', None, ('named', node))
        raise ContractError("unknown name %r (line %s)" % (n, getattr(node, 'lineno', '?')))

    def ev_Tuple(self, node, st):
        return vtuple([self.ev(e, st) for e in node.elts])

    def ev_List(self, node, st):
        items = [self.ev(e, st) for e in node.elts]
        if not items:
            return self.mk_list(st, st.hint_ek or 'int', z3.IntVal(0), z3.K(I, z3.IntVal(0)) if elem_tag(st.hint_ek or 'int') in ('int', 'ref') else
                                z3.K(I, z3.Const(fresh_name('d'), sort_of(st.hint_ek))))
        ks = set(repr(i.k) for i in items)
        if len(ks) > 1:
            if all(i.k in ('int', 'real', 'bool') for i in items):
                items = [Val('real', to_real(i)) for i in items]
            else:
                return Val(('pylist',), None, items)     # heterogeneous literal: immutable python-side value
        ek = items[0].k
        if isinstance(ek, tuple) and ek[0] == 'pylist':
            return Val(('pylist',), None, items)
        return self.mk_list(st, ek, z3.IntVal(len(items)), self.const_array(ek, items))

    def ev_Dict(self, node, st):
        if not node.keys:
            from . import models
            return models.idict_new(self, st)      # {} used as an int -> int table
        d = {}
        for k, v in zip(node.keys, node.values):
            if not (isinstance(k, ast.Constant) and isinstance(k.value, str)):
                raise Unsupported("dict literal with non-string key")
            d[k.value] = self.ev(v, st)
        return Val(('pydict',), None, d)

    def ev_UnaryOp(self, node, st):
        v = self.ev(node.operand, st)
        if isinstance(node.op, ast.Not):
            return vbool(z3.Not(self.truth_of(st, v)))
        if isinstance(node.op, ast.USub):
            if v.k == 'int':
                return vint(-v.t)
            if v.k == 'real':
                return vreal(-v.t)
            if isinstance(v.k, tuple) and v.k[0] == 'arr':
                from . import models
                return models.arr_map(self, st, [v], lambda xs: -xs[0], 'real')
        if isinstance(node.op, ast.UAdd):
            return v
        raise Unsupported("unary op")

    def ev_BoolOp(self, node, st):
        vals = []
        pushed = 0
        try:
            for e in node.values:
                v = self.ev(e, st)
                t = truth(v) if (v.k != 'bool') else v.t
                vals.append(t)
                st.guards.append(t if isinstance(node.op, ast.And) else z3.Not(t))
                pushed += 1
        finally:
            for _ in range(pushed):
                st.guards.pop()
        return vbool(z3.And(*vals) if isinstance(node.op, ast.And) else z3.Or(*vals))

    def ev_IfExp(self, node, st):
        c = self.truth_of(st, self.ev(node.test, st))
        st.guards.append(c)
        try:
            a = self.ev(node.body, st)
        finally:
            st.guards.pop()
        st.guards.append(z3.Not(c))
        try:
            b = self.ev(node.orelse, st)
        finally:
            st.guards.pop()
        return self.ite(c, a, b)

    def ite(self, c, a, b):
        if a.k == b.k and a.t is not None:
            return Val(a.k, z3.If(c, a.t, b.t))
        if {a.k, b.k} <= {'int', 'real', 'bool'}:
            if 'real' in (a.k, b.k):
                return vreal(z3.If(c, to_real(a), to_real(b)))
            return vint(z3.If(c, to_int(a), to_int(b)))
        if (is_ref_kind(a.k) and b.k == 'none') or (a.k == 'none' and is_ref_kind(b.k)):
            return Val(a.k if is_ref_kind(a.k) else b.k, z3.If(c, a.t, b.t))
        raise Unsupported("if-expression with kinds %r / %r" % (a.k, b.k))

    def arith(self, op, a, b, st, node):
        num = ('int', 'real', 'bool')
        if a.k in num and b.k in num:
            both_int = a.k != 'real' and b.k != 'real'
            if isinstance(op, ast.Div):
                x, y = to_real(a), to_real(b)
                numpy_floats = self.frame is not None and self.frame.contract.ghost.get('numpy_float_division') \
                    and (a.k == 'real' or b.k == 'real')
                if not st.spec and not numpy_floats:
                    self.oblige(st, "noexc:div0@L%d" % node.lineno, 'noexc', y != 0, node)
                    st.assume(y != 0)
                return vreal(x / y)
            if both_int:
                x, y = to_int(a), to_int(b)
                if isinstance(op, ast.Add):
                    return vint(x + y)
                if isinstance(op, ast.Sub):
                    return vint(x - y)
                if isinstance(op, ast.Mult):
                    return vint(x * y)
                if isinstance(op, (ast.FloorDiv, ast.Mod)):
                    if not st.spec:
                        self.oblige(st, "noexc:div0@L%d" % node.lineno, 'noexc', y != 0, node)
                        st.assume(y != 0)
                    # python floor division / modulo (sign of divisor); z3 div is euclidean: equal for y>0
                    q = z3.If(y > 0, x / y, (-x) / (-y))
                    if z3.is_int_value(y) and y.as_long() > 0:
                        q = x / y
                    if isinstance(op, ast.FloorDiv):
                        return vint(q)
                    return vint(x - q * y)
                if isinstance(op, ast.Pow):
                    if z3.is_int_value(y) and 0 <= y.as_long() <= 4:
                        r = z3.IntVal(1)
                        for _ in range(y.as_long()):
                            r = r * x
                        return vint(r)
                    raise Unsupported("general power")
            else:
                x, y = to_real(a), to_real(b)
                if isinstance(op, ast.Add):
                    return vreal(x + y)
                if isinstance(op, ast.Sub):
                    return vreal(x - y)
                if isinstance(op, ast.Mult):
                    return vreal(x * y)
                if isinstance(op, ast.Pow) and z3.is_int_value(to_int(b) if b.k == 'int' else z3.IntVal(0)) and b.k == 'int':
                    n = b.t.as_long()
                    r = z3.RealVal(1)
                    for _ in range(n):
                        r = r * x
                    return vreal(r)
            raise Unsupported("arithmetic operator %s" % type(op).__name__)
        from . import models
        return models.binop(self, st, op, a, b, node)

    def ev_BinOp(self, node, st):
        a = self.ev(node.left, st)
        b = self.ev(node.right, st)
        return self.arith(node.op, a, b, st, node)

    def value_eq(self, st, a, b):
        """Python == as a z3 Bool."""
        num = ('int', 'real', 'bool')
        if a.k in num and b.k in num:
            if a.k == b.k:
                return a.t == b.t
            if 'real' in (a.k, b.k):
                return to_real(a) == to_real(b)
            return to_int(a) == to_int(b)
        if a.k == 'none' and b.k == 'none':
            return z3.BoolVal(True)
        if a.k == 'none' or b.k == 'none':
            other = b if a.k == 'none' else a
            if is_ref_kind(other.k):
                return other.t == 0
            return z3.BoolVal(False)
        if a.k == 'val' and b.k == 'val':
            return a.t == b.t
        if isinstance(a.k, tuple) and isinstance(b.k, tuple) and a.k[0] == 'list' and b.k[0] == 'list':
            if elem_tag(a.k[1]) != elem_tag(b.k[1]):
                raise Unsupported("== on lists of different element kinds")
            if is_ref_kind(a.k[1]):
                raise Unsupported("== on lists of objects")
            la, lb = self.list_len(st, a), self.list_len(st, b)
            ea, eb = self.list_arr(st, a), self.list_arr(st, b)
            j = z3.Int(fresh_name('j'))
            content = z3.And(la == lb, z3.ForAll([j], z3.Implies(z3.And(0 <= j, j < la),
                                                                 z3.Select(ea, j) == z3.Select(eb, j))))
            # None == list is False; a null reference compares equal only to a null reference
            return z3.If(z3.Or(a.t == 0, b.t == 0), z3.And(a.t == 0, b.t == 0), z3.Or(a.t == b.t, content))
        if isinstance(a.k, tuple) and a.k[0] == 'tuple' and isinstance(b.k, tuple) and b.k[0] == 'tuple':
            if len(a.py) != len(b.py):
                return z3.BoolVal(False)
            return zand([self.value_eq(st, x, y) for x, y in zip(a.py, b.py)])
        if a.k == 'str' and b.k == 'str':
            return z3.BoolVal(a.py == b.py)
        if is_ref_kind(a.k) and is_ref_kind(b.k) and a.k[0] in ('obj', 'opaque'):
            return a.t == b.t
        raise Unsupported("== between %r and %r" % (a.k, b.k))

    def compare(self, op, a, b, st, node):
        if isinstance(op, (ast.Eq, ast.NotEq)):
            e = self.value_eq(st, a, b)
            return e if isinstance(op, ast.Eq) else z3.Not(e)
        if isinstance(op, (ast.Is, ast.IsNot)):
            if a.k == 'none' and b.k == 'none':
                e = z3.BoolVal(True)
            elif a.k == 'none' or b.k == 'none':
                other = b if a.k == 'none' else a
                e = (other.t == 0) if is_ref_kind(other.k) else z3.BoolVal(False)
                if other.k == 'func':
                    e = z3.BoolVal(False)
            elif is_ref_kind(a.k) and is_ref_kind(b.k):
                e = a.t == b.t
            else:
                raise Unsupported("'is' between %r and %r" % (a.k, b.k))
            return e if isinstance(op, ast.Is) else z3.Not(e)
        if isinstance(op, (ast.In, ast.NotIn)):
            if isinstance(b.k, tuple) and b.k[0] == 'set':
                e = z3.Select(st.heap.rd('set:', b.t), to_int(a))
                return e if isinstance(op, ast.In) else z3.Not(e)
            raise Unsupported("'in' on %r" % (b.k,))
        num = ('int', 'real', 'bool')
        if a.k in num and b.k in num:
            if a.k != 'real' and b.k != 'real':
                x, y = to_int(a), to_int(b)
            else:
                x, y = to_real(a), to_real(b)
            if isinstance(op, ast.Lt):
                return x < y
            if isinstance(op, ast.LtE):
                return x <= y
            if isinstance(op, ast.Gt):
                return x > y
            if isinstance(op, ast.GtE):
                return x >= y
        raise Unsupported("comparison %s on %r,%r" % (type(op).__name__, a.k, b.k))

    def ev_Compare(self, node, st):
        left = self.ev(node.left, st)
        from . import models
        if len(node.ops) == 1 and isinstance(left.k, tuple) and left.k[0] == 'arr' or \
                (len(node.ops) == 1 and isinstance(self._peek_kind(node.comparators[0], st), tuple)
                 and self._peek_kind(node.comparators[0], st)[0] == 'arr'
                 and not isinstance(node.ops[0], (ast.Is, ast.IsNot, ast.Eq, ast.NotEq))):
            right = self.ev(node.comparators[0], st)
            return models.arr_compare(self, st, node.ops[0], left, right, node)
        res = []
        for op, c in zip(node.ops, node.comparators):
            right = self.ev(c, st)
            res.append(self.compare(op, left, right, st, node))
            left = right
        return vbool(zand(res))

    def _peek_kind(self, node, st):
        if isinstance(node, ast.Name) and node.id in st.env:
            return st.env[node.id].k
        return None

    def ev_Lambda(self, node, st):
        return Val('func', None, ('lambda', node, dict(st.env), dict(st.spec_env) if st.spec else {}))

    # -- attribute ----------------------------------------------------
    def ev_Attribute(self, node, st):
        # module-qualified constant (math.pi) or function reference
        parts = self.resolve_dotted(node)
        if parts and parts[0] not in st.env and not (st.spec and parts[0] in st.spec_env):
            mod = self.frame.mod
            if parts[0] in mod.imports:
                dotted = '.'.join([mod.imports[parts[0]]] + parts[1:])
                if dotted == 'math.pi':
                    return self.const_pi(st)
                if dotted == 'numpy.ndarray' or (dotted.startswith('numpy.') and dotted.split('.')[-1] in (
                        'float64', 'float32', 'float16', 'int8', 'int16', 'int32', 'int64', 'uint8', 'uint16', 'uint32', 'uint64', 'intp', 'bool_')):
                    return Val('str', None, dotted)
                if dotted == 'sys.stdout':
                    return Val(('opaque', 'stream'), z3.IntVal(1))
                return Val('func', None, ('named', node))
            if parts[0] in mod.classes:
                return Val('func', None, ('named', node))
        base = self.ev(node.value, st)
        return self.get_attr(st, base, node.attr, node)

    def const_pi(self, st):
        pi = z3.Real('pi')
        st.assume(z3.And(pi > z3.RealVal('3.14159'), pi < z3.RealVal('3.1416')))
        return vreal(pi)

    def field_key(self, cls, name):
        sch = S.CLASSES.get(cls)
        if sch is None or name not in sch.fields:
            raise ContractError("no schema for field %s.%s" % (cls, name))
        fk = sch.fields[name]
        ov = (self.frame.contract.ghost.get('schema') or {}).get(cls + '.' + name) if self.frame else None
        if ov:
            fk = parse_kind(ov)
        return 'f:%s.%s:%s' % (cls, name, elem_tag(fk)), fk

    def get_attr(self, st, base, attr, node):
        k = base.k
        if isinstance(k, tuple) and k[0] == 'obj':
            cls = k[1]
            sch = S.CLASSES.get(cls)
            if sch is not None and attr in sch.fields:
                key, fk = self.field_key(cls, attr)
                v = Val(fk, st.heap.rd(key, base.t))
                if is_ref_kind(fk):
                    self.ref_map_axiom(st, key)
                    if st.ghost.get('qdepth', 0) == 0:
                        b = st.heap.bound(key)
                        st.assume(z3.And(v.t >= 0, v.t < st.heap.alloc, z3.Implies(base.t < b, v.t < b)))
                        if st.heap.known_below(base.t, st.heap.bound_pos(key)):
                            st.heap.note_below(v.t, st.heap.bound_pos(key))
                return v
            # property getter?
            if sch is not None:
                mod, _ = self.repo.find_function(sch.qualname + '.__init__') if False else (self.repo.module(sch.qualname.rsplit('.', 1)[0]), None)
                if mod.is_property(cls, attr):
                    from . import calls
                    return calls.call_repo(self, sch.qualname + '.' + attr, [base], {}, st, node)
                if (cls + '.' + attr) in mod.functions:
                    return Val('func', None, ('bound', sch.qualname + '.' + attr, base))
            raise ContractError("attribute %s on %s not in schema" % (attr, cls))
        if isinstance(k, tuple) and k[0] == 'arr':
            sh = self.arr_shape(st, base)
            if attr == 'shape':
                return vtuple([vint(s) for s in sh])
            if attr == 'size':
                return vint(sh[0] if k[1] == 1 else sh[0] * sh[1])
            if attr == 'T':
                from . import models
                return models.transpose(self, st, base)
            if attr == 'ndim':
                return vint(k[1])
            return Val('func', None, ('method', base, attr))
        if isinstance(k, tuple) and k[0] in ('list', 'set', 'opaque', 'pylist', 'pydict'):
            if k[0] == 'list' and attr == 'shape':
                # lists have no .shape: AttributeError (used by the front-end type translation)
                st.pending_raises.append((z3.BoolVal(True), 'AttributeError', len(st.pc)))
                st.assume(z3.BoolVal(False))        # execution does not continue past the failing attribute access
                return vtuple([vint(0), vint(0)])
            return Val('func', None, ('method', base, attr))
        if k == 'func':
            return Val('func', None, ('attr', base, attr))
        raise Unsupported("attribute %s on %r" % (attr, k))

    # -- subscripts ---------------------------------------------------
    def ev_Subscript(self, node, st):
        base = self.ev(node.value, st)
        from . import models
        return models.subscript_load(self, st, base, node.slice, node)

    def ev_DictComp(self, node, st):
        from . import models
        return models.dict_comp(self, st, node)

    def ev_ListComp(self, node, st):
        from . import models
        return models.list_comp(self, st, node)

    def ev_Call(self, node, st):
        from . import calls
        return calls.ev_call(self, node, st)
