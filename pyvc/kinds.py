"""z3-free part of the vocabulary (importable under /venv/bin/python for native evaluation)."""


class Unsupported(Exception):
    """Construct outside the supported subset -> UNDECIDED, never a verdict."""


class ContractError(Exception):
    """Sidecar contract does not match the code (renamed variable...) -> UNDECIDED."""


def is_ref_kind(k):
    return isinstance(k, tuple) and k[0] in ('list', 'arr', 'obj', 'set', 'opaque', 'ddict', 'pdict', 'idict', 'iter')


def parse_kind(s):
    """'int' | 'real' | 'list[int]' | 'arr2[real]' | 'obj:ModelState' | 'list[obj:X]' | 'tuple[a,b]'"""
    if not isinstance(s, str):
        return s
    s = s.strip()
    if s in ('int', 'real', 'bool', 'val', 'none', 'str'):
        return s
    if s == 'set':
        return ('set',)
    if s == 'idict':
        return ('idict',)
    if s == 'ddict[int]':
        return ('ddict', 'int')
    if s == 'pdict[int]':
        return ('pdict', 'int')
    if s.startswith('obj:'):
        return ('obj', s[4:])
    if s.startswith('opaque:'):
        return ('opaque', s[7:])
    if s.startswith('list[') and s.endswith(']'):
        return ('list', parse_kind(s[5:-1]))
    if s.startswith('arr1[') or s.startswith('arr2[') or s.startswith('arr3['):
        return ('arr', int(s[3]), parse_kind(s[5:-1]))
    if s.startswith('tuple[') and s.endswith(']'):
        parts, depth, cur = [], 0, ''
        for ch in s[6:-1]:
            if ch == ',' and depth == 0:
                parts.append(cur)
                cur = ''
            else:
                depth += ch == '['
                depth -= ch == ']'
                cur += ch
        parts.append(cur)
        return ('tuple', [parse_kind(p) for p in parts])
    raise ContractError("bad kind %r" % s)


