"""Contract registry.  Contracts are sidecar declarations keyed by the qualified
name of a function in /repo; clauses are strings in Python expression syntax that
the engine evaluates symbolically (and native/clause_eval.py evaluates natively)."""
import ast
from .kinds import parse_kind, ContractError

CONTRACTS = {}      # qualname -> Contract
SPECFNS = {}        # name -> SpecFn
CLASSES = {}        # class name -> ClassSchema
LEMMAS = []         # Lemma


class Contract:
    def __init__(self, qualname, props=(), params=None, returns=None, requires=(), ensures=(),
                 raises=None, assigns=(), loops=None, inline=False, ghost=None, arith='real',
                 effects=(), notes='', hints=(), allocates=None, axioms=(), trusted=False,
                 param_order=None, split_ensures=True, cover=True):
        self.qualname = qualname
        self.props = list(props)
        self.params = {k: parse_kind(v) for k, v in (params or {}).items()}
        self.returns = parse_kind(returns) if returns is not None else None
        self.requires = list(requires)
        self.ensures = list(ensures)            # entries: "clause" or ("label", "clause")
        self.raises = dict(raises or {})        # ExcName -> condition clause (over params, pre-state)
        self.assigns = list(assigns)            # spec expressions naming refs / ref.field ; [] = nothing
        self.loops = dict(loops or {})          # ordinal -> dict(inv=[...], modifies=[...], decreases=..)
        self.inline = inline
        self.ghost = dict(ghost or {})
        self.arith = arith
        self.effects = list(effects)
        self.notes = notes
        self.hints = list(hints)
        if allocates is None:
            def has_ref(k):
                return isinstance(k, tuple) and (k[0] != 'tuple' or any(has_ref(x) for x in k[1]))
            allocates = bool(self.assigns) or has_ref(self.returns)
        self.allocates = allocates
        self.axioms = list(axioms)
        self.trusted = trusted                  # assumed contract (library / not verified)
        self.param_order = param_order

    def labelled(self, clauses, prefix):
        out = []
        for n, c in enumerate(clauses, 1):
            if isinstance(c, tuple):
                out.append((c[0], c[1]))
            else:
                out.append(("%s#%d" % (prefix, n), c))
        return out


def contract(qualname, **kw):
    if qualname in CONTRACTS:
        raise ContractError("duplicate contract " + qualname)
    c = Contract(qualname, **kw)
    CONTRACTS[qualname] = c
    return c


class SpecFn:
    """A spec function: either a macro (lambda source, expanded at use, evaluated natively by
    eval of the same text) or an uninterpreted function with axioms and a native definition."""

    def __init__(self, name, src=None, sig=None, axioms=(), native=None, uf=False):
        self.name, self.src, self.sig, self.axioms, self.native = name, src, sig, list(axioms), native
        self.uf = uf        # macro exposed as an uninterpreted function + definitional axiom (usable as trigger)
        self.tree = ast.parse(src, mode='eval').body if src else None


def specfn(name, src=None, sig=None, axioms=(), native=None, uf=False):
    SPECFNS[name] = SpecFn(name, src, sig, axioms, native, uf)


class ClassSchema:
    def __init__(self, name, qualname, fields, invariant=()):
        self.name, self.qualname = name, qualname
        self.fields = {k: parse_kind(v) for k, v in fields.items()}
        self.invariant = list(invariant)


def classschema(name, qualname, fields, invariant=()):
    CLASSES[name] = ClassSchema(name, qualname, fields, invariant)


class Lemma:
    def __init__(self, name, props, builder, notes=''):
        self.name, self.props, self.builder, self.notes = name, list(props), builder, notes


def lemma(name, props, builder, notes=''):
    LEMMAS.append(Lemma(name, props, builder, notes))


STRUCTURAL = []     # dict(name, props, fn(repo) -> [(name, ok, detail)])
BOUNDED = []        # dict(name, props, fn(tier, seed) -> dict)


def structural(name, props, fn, anchor=''):
    STRUCTURAL.append(dict(name=name, props=list(props), fn=fn, anchor=anchor))


def bounded(name, props, fn, quick=True):
    BOUNDED.append(dict(name=name, props=list(props), fn=fn, quick=quick))


FPSPECS = []        # binary64 obligations on straight-line elementwise code (pyvc/fpkernel.py)


def fpspec(**kw):
    FPSPECS.append(kw)
