"""Contracts name the locals of the function they annotate (loop invariants, ghost returns).  A maintainer who renames a
local has not changed the function, but the sidecar contract no longer type-checks.  This module re-targets the contract:
the ordered list of names bound in the function on the reference tree is stored with the baseline; when the current
function binds a different list, names are aligned (unchanged names anchor the alignment, equally long replaced stretches
are mapped by position) and the contract text is rewritten accordingly.  Nothing is assumed: every obligation is still
generated from the current code and discharged as usual -- a wrong guess just fails to prove."""
import ast
import copy
import difflib
import re


def local_names(fdef):
    """distinct names bound inside the function, in source order (parameters excluded)"""
    params = {a.arg for a in fdef.args.args + fdef.args.kwonlyargs + fdef.args.posonlyargs}
    if fdef.args.vararg:
        params.add(fdef.args.vararg.arg)
    if fdef.args.kwarg:
        params.add(fdef.args.kwarg.arg)
    found = []
    for n in ast.walk(fdef):
        if isinstance(n, ast.Name) and isinstance(n.ctx, ast.Store):
            found.append((n.lineno, n.col_offset, n.id))
        elif isinstance(n, ast.ExceptHandler) and n.name:
            found.append((n.lineno, n.col_offset, n.name))
    out = []
    for _, _, name in sorted(found):
        if name not in params and name not in out:
            out.append(name)
    return out


def loop_targets(fdef):
    """names bound as for-loop / comprehension targets, in source order"""
    found = []
    for n in ast.walk(fdef):
        tg = None
        if isinstance(n, (ast.For, ast.comprehension)):
            tg = n.target
        if tg is not None:
            for x in ast.walk(tg):
                if isinstance(x, ast.Name):
                    found.append((x.lineno, x.col_offset, x.id))
    out = []
    for _, _, name in sorted(found):
        if name not in out:
            out.append(name)
    return out


def mapping(ref, cur, ref_loops=None, cur_loops=None):
    """{old name: new name} for locals that were renamed ({} when nothing can be aligned).  Unchanged names anchor the
    alignment; a replaced stretch is mapped by position (as far as both sides reach); loop variables are aligned among
    themselves when the number of loops is unchanged."""
    if ref == cur:
        return {}
    m = {}
    if ref_loops is not None and cur_loops is not None and len(ref_loops) == len(cur_loops):
        for o, n in zip(ref_loops, cur_loops):
            if o != n:
                m[o] = n
    sm = difflib.SequenceMatcher(a=ref, b=cur, autojunk=False)
    for tag, i1, i2, j1, j2 in sm.get_opcodes():
        if tag == 'replace':
            for k in range(min(i2 - i1, j2 - j1)):
                m.setdefault(ref[i1 + k], cur[j1 + k])
    # a name that still exists in the current function is not renamed
    m = {o: n for o, n in m.items() if o not in cur and n not in ref}
    if len(set(m.values())) != len(m):
        return {}
    return m


def _sub(text, m):
    if not isinstance(text, str):
        return text
    for old, new in m.items():
        text = re.sub(r'(?<![\w.])%s\b' % re.escape(old), new, text)
    return text


def _walk(obj, m):
    if isinstance(obj, str):
        return _sub(obj, m)
    if isinstance(obj, tuple):
        return tuple(_walk(x, m) for x in obj)
    if isinstance(obj, list):
        return [_walk(x, m) for x in obj]
    if isinstance(obj, dict):
        out = {}
        for k, v in obj.items():
            nk = k
            if isinstance(k, str) and k.startswith('kind:') and k[5:] in m:
                nk = 'kind:' + m[k[5:]]
            out[nk] = _walk(v, m)
        return out
    return obj


def adapt(contract, m):
    """copy of the contract with the loop contracts and ghost clauses re-targeted to the renamed locals"""
    if not m:
        return contract
    c = copy.copy(contract)
    c.loops = _walk(contract.loops, m)
    g = {}
    for k, v in contract.ghost.items():
        if k in ('returns', 'comps'):
            g[k] = _walk(v, m)
        elif isinstance(k, str) and k.startswith('kind:') and k[5:] in m:
            g['kind:' + m[k[5:]]] = v
        else:
            g[k] = v
    c.ghost = g
    return c
