"""Values, kinds, heap and state for the symbolic executor."""
import itertools
import z3

# A trigger z3 rejects ("invalid pattern": after its construction-time simplification the pattern no longer mentions every
# bound variable) only guides instantiation; dropping it affects completeness, never soundness.  No quantifier construction
# may crash the checker, whatever shape the analysed code gives the terms.
_z3_forall = z3.ForAll


def _forall_tolerant(vs, body, weight=1, qid="", skid="", patterns=[], no_patterns=[]):
    try:
        return _z3_forall(vs, body, weight, qid, skid, patterns, no_patterns)
    except z3.Z3Exception:
        if not patterns:
            raise
        return _z3_forall(vs, body, weight, qid, skid, [], no_patterns)


z3.ForAll = _forall_tolerant

ValSort = z3.DeclareSort('Val')          # uninterpreted payload (copied-only data)
I, R, B = z3.IntSort(), z3.RealSort(), z3.BoolSort()

_ctr = itertools.count()


def fresh_name(base):
    return "%s!%d" % (base, next(_ctr))


from .kinds import Unsupported, ContractError, is_ref_kind, parse_kind  # noqa: E402,F401


# ---------------------------------------------------------------- kinds
# scalar kinds: 'int' 'real' 'bool' 'val' 'none' 'str'
# ('list', ek) ('arr', ndim, ek) ('obj', cls) ('set',) ('tuple', [kinds]) ('func',)
# ('opaque', name)  -- uninterpreted library object (pool, task, callable)

def sort_of(k):
    if k == 'int':
        return I
    if k == 'real':
        return R
    if k == 'bool':
        return B
    if k == 'val':
        return ValSort
    if k == 'none' or is_ref_kind(k):
        return I
    if isinstance(k, tuple) and k[0] == 'tuple':
        return tuple_sort(k[1])
    raise Unsupported("no z3 sort for kind %r" % (k,))


_tuple_sorts = {}


def tuple_sort(kinds):
    key = '_'.join(kinds)
    if key not in _tuple_sorts:
        dt = z3.Datatype('Tup_' + key)
        dt.declare('mk', *[('f%d' % n, sort_of(k)) for n, k in enumerate(kinds)])
        _tuple_sorts[key] = dt.create()
    return _tuple_sorts[key]


def elem_tag(ek):
    if isinstance(ek, tuple) and ek[0] == 'tuple':
        if not all(isinstance(k, str) for k in ek[1]):
            raise Unsupported("list of tuples with non-scalar components")
        return 'tup_' + '_'.join(ek[1])
    return 'ref' if (is_ref_kind(ek) or ek == 'none') else ek


def tuple_term(v):
    """python-side tuple value -> z3 datatype term"""
    if v.t is not None:
        return v.t
    srt = tuple_sort(v.k[1])
    comps = []
    for c, k in zip(v.py, v.k[1]):
        comps.append(to_real(c) if k == 'real' else c.t)
    return srt.constructor(0)(*comps)


def tuple_val(kind, term):
    srt = tuple_sort(kind[1])
    return Val(kind, term, [Val(k, srt.accessor(0, n)(term)) for n, k in enumerate(kind[1])])


class Val:
    __slots__ = ('k', 't', 'py')

    def __init__(self, k, t=None, py=None):
        self.k, self.t, self.py = k, t, py

    def __repr__(self):
        return "Val(%r,%s,%r)" % (self.k, self.t, self.py)


NONE = Val('none', z3.IntVal(0))


def vint(x):
    return Val('int', z3.IntVal(x) if isinstance(x, int) else x)


def vreal(x):
    if isinstance(x, (int, float)):
        return Val('real', z3.RealVal(repr(float(x)) if isinstance(x, float) else x))
    return Val('real', x)


def vbool(x):
    return Val('bool', z3.BoolVal(x) if isinstance(x, bool) else x)


def vtuple(items):
    return Val(('tuple', [v.k for v in items]), None, list(items))


def to_real(v):
    if v.k == 'real':
        return v.t
    if v.k == 'int':
        return z3.ToReal(v.t)
    if v.k == 'bool':
        return z3.If(v.t, z3.RealVal(1), z3.RealVal(0))
    raise Unsupported("not numeric: %r" % (v.k,))


def to_int(v):
    if v.k == 'int':
        return v.t
    if v.k == 'bool':
        return z3.If(v.t, z3.IntVal(1), z3.IntVal(0))
    raise Unsupported("not an int: %r" % (v.k,))


def truth(v):
    """Python truthiness of a scalar value (bool/int/real/none/ref-optional)."""
    if v.k == 'bool':
        return v.t
    if v.k == 'int':
        return v.t != 0
    if v.k == 'real':
        return v.t != 0
    if v.k == 'none':
        return z3.BoolVal(False)
    if v.k == 'func':
        return z3.BoolVal(True)
    if isinstance(v.k, tuple) and v.k[0] in ('opaque', 'obj', 'arr'):
        return v.t != 0
    raise Unsupported("truthiness of kind %r" % (v.k,))


# ---------------------------------------------------------------- heap
class Heap:
    """Burstall-Bornat heap: one z3 array per component, keyed by reference (Int).

    Each component is kept as (base array term, write log).  A read walks the log backwards and skips
    writes to references that are known to differ from the one read (different allocation epoch, or
    same epoch with different offsets); this is the read-over-write axiom applied eagerly, so terms do
    not carry long Store chains.  Anything not decided syntactically falls back to Select(Store ...)."""

    def __init__(self, tag):
        self.m = {}             # key -> [base_term, [(ref, val), ...]]
        self.tag = tag
        self.alloc = z3.Int(fresh_name('alloc_' + tag))
        self.epoch = 0
        self.info = {}          # term id -> (epoch, offset or None)
        self.base = self.alloc  # alloc term at the start of the current epoch
        self.used = 0
        self.alloc0 = self.alloc
        self.ev_alloc = {}      # key -> alloc term at the time the component was last modified
        self.ev_pos = {}        # key -> (epoch, used) position of that mark

    def copy(self):
        h = Heap.__new__(Heap)
        h.m = {k: [v[0], list(v[1])] for k, v in self.m.items()}
        h.tag = self.tag
        h.alloc = self.alloc
        h.epoch, h.info, h.base, h.used = self.epoch, dict(self.info), self.base, self.used
        h.alloc0, h.ev_alloc = self.alloc0, dict(self.ev_alloc)
        h.ev_pos = dict(self.ev_pos)
        h.base_alloc = dict(getattr(self, 'base_alloc', {}))
        return h

    # allocation bookkeeping ----------------------------------------
    def new_ref(self):
        r = self.alloc
        self.info[r.get_id()] = (self.epoch, self.used)
        self._keep = getattr(self, '_keep', [])
        self._keep.append(r)
        self.used += 1
        self.alloc = self.base + self.used
        return r

    def new_epoch(self, alloc_term):
        self.epoch += 1
        self.base = alloc_term
        self.alloc = alloc_term
        self.used = 0

    def note_pre(self, ref):
        """ref is known to be allocated before the first epoch (a parameter)"""
        self.info[ref.get_id()] = (-1, None)
        self._keep = getattr(self, '_keep', [])
        self._keep.append(ref)

    def pos(self):
        return (self.epoch, self.used)

    def note_below(self, ref, pos):
        """ref is known to be smaller than the allocation mark at position pos = (epoch, used)"""
        cur = self.info.get(ref.get_id())
        if cur is None or (cur[0] == 'lt' and pos < cur[1]):
            self.info[ref.get_id()] = ('lt', pos)
            self._keep = getattr(self, '_keep', [])
            self._keep.append(ref)

    def known_below(self, ref, pos):
        i = self.info.get(ref.get_id())
        if i is None:
            return False
        if i[0] == 'lt':
            return i[1] <= pos
        if i[0] == -1:
            return True
        return i[1] is not None and (i[0], i[1]) < pos

    def distinct(self, a, b):
        ia, ib = self.info.get(a.get_id()), self.info.get(b.get_id())
        if ia is None or ib is None:
            return False
        def norm(i):
            if i[0] == 'lt':
                return ('lt', i[1])
            if i[0] == -1:
                return ('lt', (0, 0))
            return ('at', (i[0], i[1])) if i[1] is not None else None
        na, nb = norm(ia), norm(ib)
        if na is None or nb is None:
            return False
        if na[0] == 'at' and nb[0] == 'at':
            return na[1] != nb[1]
        if na[0] == 'lt' and nb[0] == 'at':
            return nb[1] >= na[1]
        if na[0] == 'at' and nb[0] == 'lt':
            return na[1] >= nb[1]
        return False

    def _sort(self, key):
        if key in ('len', 'sh0', 'sh1'):
            return z3.ArraySort(I, I)
        kind, _, tag = key.partition(':')
        es = {'int': I, 'real': R, 'bool': B, 'val': ValSort, 'ref': I}
        if tag.startswith('tup_'):
            es[tag] = tuple_sort(tag[4:].split('_'))
        if kind == 'el' or kind == 'd1':
            return z3.ArraySort(I, z3.ArraySort(I, es[tag]))
        if kind == 'd2':
            return z3.ArraySort(I, z3.ArraySort(I, I, es[tag]))
        if kind == 'set':
            return z3.ArraySort(I, z3.ArraySort(I, B))
        if kind == 'f':       # f:<Class.field>:<tag>
            name, _, t = tag.rpartition(':')
            return z3.ArraySort(I, es[t])
        raise Unsupported("heap key %r" % key)

    def _entry(self, key):
        if key not in self.m:
            self.m[key] = [z3.Const('H_%s_%s' % (self.tag, key), self._sort(key)), []]
        return self.m[key]

    def get(self, key):
        base, log = self._entry(key)
        t = base
        for (r, v) in log:
            t = z3.Store(t, r, v)
        return t

    def bound_pos(self, key):
        return self.ev_pos.get(key, (0, 0))

    def bound(self, key):
        """every reference stored in component `key` is below this allocation mark (the component has not
        been modified since, and no reference is ever stored before it is allocated)"""
        return self.ev_alloc.get(key, self.alloc0)

    def set(self, key, term):
        self.m[key] = [term, []]
        self.ev_alloc[key] = self.alloc
        self.ev_pos[key] = self.pos()
        self.base_alloc = dict(getattr(self, 'base_alloc', {}))
        self.base_alloc[key] = self.alloc

    def rd(self, key, ref):
        base, log = self._entry(key)
        n = len(log)
        while n > 0:
            r, v = log[n - 1]
            if r.eq(ref):
                return v
            if not self.distinct(r, ref):
                break
            n -= 1
        t = base
        for (r, v) in log[:n]:
            t = z3.Store(t, r, v)
        return z3.Select(t, ref)

    def wr(self, key, ref, val):
        base, log = self._entry(key)
        # a write to the same reference as the last write replaces it
        if log and log[-1][0].eq(ref):
            log[-1] = (ref, val)
        else:
            log.append((ref, val))
        self.ev_alloc[key] = self.alloc
        self.ev_pos[key] = self.pos()


class State:
    def __init__(self):
        self.env = {}
        self.heap = Heap('pre')
        self.pc = []            # path condition (list of z3 Bool)
        self.guards = []        # definedness guards inside short-circuit expressions
        self.pending_raises = []    # (cond, excname) forks produced by an expression
        self.trail = []         # human-readable path trail
        self.ghost = {}
        self.spec = False       # evaluating a contract clause (total reads, no obligations)
        self.spec_env = {}
        self.old = None         # (env, heap) for old(...)
        self.hint_ek = None     # element kind hint for empty list literals

    def copy(self):
        s = State.__new__(State)
        s.env = dict(self.env)
        s.heap = self.heap.copy()
        s.pc = list(self.pc)
        s.guards = list(self.guards)
        s.pending_raises = []
        s.trail = list(self.trail)
        s.ghost = dict(self.ghost)
        s.spec, s.spec_env, s.old, s.hint_ek = self.spec, dict(self.spec_env), self.old, self.hint_ek
        return s

    def assume(self, f):
        self.pc.append(f)

    def hyps(self):
        return self.pc + self.guards


class Obligation:
    __slots__ = ('name', 'kind', 'fn', 'lineno', 'hyps', 'goal', 'trail', 'props', 'expect_sat', 'hints', 'seq')

    def __init__(self, name, kind, fn, lineno, hyps, goal, trail=(), props=(), expect_sat=False, hints=()):
        self.name, self.kind, self.fn, self.lineno = name, kind, fn, lineno
        self.hyps, self.goal, self.trail, self.props = list(hyps), goal, list(trail), list(props)
        self.expect_sat = expect_sat
        self.hints = list(hints)
