"""z3 prints two-index arrays as (Array Int Int T) with (select a i j) / (store a i j v); cvc5 1.0 only reads the SMT-LIB
form.  This rewrites a benchmark text into nested one-index arrays -- an equisatisfiable re-encoding (the theory of
n-index arrays is the theory of arrays of arrays)."""


def _tokens(text):
    i, n = 0, len(text)
    while i < n:
        c = text[i]
        if c in ' \t\r\n':
            i += 1
        elif c == ';':
            while i < n and text[i] != '\n':
                i += 1
        elif c in '()':
            yield c
            i += 1
        elif c == '|':
            j = text.index('|', i + 1)
            yield text[i:j + 1]
            i = j + 1
        elif c == '"':
            j = i + 1
            while True:
                j = text.index('"', j)
                if j + 1 < n and text[j + 1] == '"':
                    j += 2
                    continue
                break
            yield text[i:j + 1]
            i = j + 1
        else:
            j = i
            while j < n and text[j] not in ' \t\r\n()':
                j += 1
            yield text[i:j]
            i = j


def parse(text):
    stack = [[]]
    for t in _tokens(text):
        if t == '(':
            stack.append([])
        elif t == ')':
            x = stack.pop()
            stack[-1].append(x)
        else:
            stack[-1].append(t)
    if len(stack) != 1:
        raise ValueError("unbalanced s-expression")
    return stack[0]


def show(x):
    if isinstance(x, str):
        return x
    return '(' + ' '.join(show(y) for y in x) + ')'


def rewrite(x):
    if isinstance(x, str):
        return x
    if not x:
        return x
    head = x[0]
    if head == 'Array' and len(x) > 3:
        # (Array I1 I2 ... T)  ->  (Array I1 (Array I2 ... T))
        return ['Array', rewrite(x[1]), rewrite(['Array'] + x[2:])]
    if head == 'select' and len(x) > 3:
        a = rewrite(x[1])
        for idx in x[2:]:
            a = ['select', a, rewrite(idx)]
        return a
    if head == 'store' and len(x) > 4:
        a, idxs, v = rewrite(x[1]), [rewrite(i) for i in x[2:-1]], rewrite(x[-1])

        def nest(arr, ids):
            if len(ids) == 1:
                return ['store', arr, ids[0], v]
            return ['store', arr, ids[0], nest(['select', arr, ids[0]], ids[1:])]
        return nest(a, idxs)
    if head == 'lambda':
        raise ValueError("lambda array")
    return [rewrite(y) for y in x]


def nest_multi_index(smt):
    """benchmark text with nested arrays, or None if it uses something that cannot be re-encoded (lambda arrays)"""
    try:
        forms = parse(smt)
        out = []
        for f in forms:
            # ((as const (Array Int Int T)) v): the constant array of constant arrays
            out.append(show(_const(rewrite(f))))
        return '\n'.join(out) + '\n'
    except (ValueError, IndexError):
        return None


def _const(x):
    if isinstance(x, str) or not x:
        return x
    x = [_const(y) for y in x]
    # after the sort rewrite a 2-index constant array reads ((as const (Array Int (Array Int T))) v) with v of sort T
    if len(x) == 2 and isinstance(x[0], list) and len(x[0]) == 3 and x[0][0] == 'as' and x[0][1] == 'const':
        srt = x[0][2]
        if isinstance(srt, list) and srt[0] == 'Array' and isinstance(srt[2], list) and srt[2][0] == 'Array' and not _is_array_value(x[1]):
            inner = _const([['as', 'const', srt[2]], x[1]])
            return [['as', 'const', srt], inner]
    return x


def _is_array_value(v):
    return isinstance(v, list) and len(v) >= 1 and (v[0] in ('store',) or (isinstance(v[0], list) and v[0][:2] == ['as', 'const']))
