"""pyvc -- a small verification-condition generator for the Python subset used by
sandialabs/fast_ticc.  It re-reads the repository source with `ast` on every run,
symbolically executes the *real* function bodies against sidecar contracts
(/verif/contracts), cuts loops at invariants and calls at callee contracts, and
emits named obligations discharged by z3 (cvc5 as second opinion).

Nothing here is a model of the repository code: the only program text that is
executed symbolically is the text found under /repo at the time of the run.
"""
