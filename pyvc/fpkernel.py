"""IEEE-754 binary64 layer for straight-line elementwise NumPy code (the eigenvalue map of x_update_prox).

Everywhere else in pyvc a float is a mathematical real.  This module reads the SAME function text from /repo, takes the
statements that follow the eigen-decomposition, and translates them -- per array element -- into z3 FloatingPoint terms
(round-to-nearest-even, exactly what NumPy computes element by element).  The contract (contracts/c_fp.py) gives the
input ranges and the postcondition, stated over the same ghost names as the real-arithmetic contract of the function
(SC = rho_scale, IT = inner_term = np.diag(new_eigenvalues)).

Proof structure (modular, like a call is cut at a contract): every operation node of the extracted expression DAG is cut
at an interval.  The interval is computed in Python by outward-widened interval arithmetic, and is then an OBLIGATION of
its own:   operands within their (already proved) intervals  |-  fl(op(operands)) within the computed interval,
discharged by z3's bit-precise FloatingPoint theory for all binary64 operands.  A wrong interval cannot make anything pass:
it is just an obligation that fails.  np.where(cond, a, b) evaluates a under cond and b under not cond (path-sensitive
refinement of the input ranges), so the two branches are proved separately.

What the extraction drops: np.linalg.eigh (its outputs d are the symbolic inputs), np.diag, and the matrix product
q @ inner_term @ q.T -- the obligation is about the numbers the spectral product is built from, not about its rounding.
"""
import ast
import math
import multiprocessing as mp
import time

import z3

F64 = z3.Float64()
RM = z3.RNE()
WIDEN = 1e-9


class FPUnsupported(Exception):
    pass


def V(x):
    return z3.FPVal(float(x), F64)


def _down(x):
    if x == 0.0 or math.isinf(x):
        return x
    return x * (1 - WIDEN) if x > 0 else x * (1 + WIDEN)


def _up(x):
    if x == 0.0 or math.isinf(x):
        return x
    return x * (1 + WIDEN) if x > 0 else x * (1 - WIDEN)


class Node:
    """one value of the extracted computation: op in {'in','const','add','sub','mul','div','sqrt','abs','where'}"""
    _n = [0]

    def __init__(self, op, args=(), lo=None, hi=None, name=None, src='', line=0, cond=None):
        self.op, self.args, self.lo, self.hi, self.name, self.src, self.line, self.cond = op, list(args), lo, hi, name, src, line, cond
        Node._n[0] += 1
        self.id = Node._n[0]

    def term(self, leaf):
        """full (uncut) z3 term; leaf(name) gives the z3 constant of an input"""
        a = [x.term(leaf) for x in self.args]
        if self.op == 'in':
            return leaf(self.name)
        if self.op == 'const':
            return V(self.lo)
        if self.op == 'add':
            return z3.fpAdd(RM, a[0], a[1])
        if self.op == 'sub':
            return z3.fpSub(RM, a[0], a[1])
        if self.op == 'mul':
            return z3.fpMul(RM, a[0], a[1])
        if self.op == 'div':
            return z3.fpDiv(RM, a[0], a[1])
        if self.op == 'sqrt':
            return z3.fpSqrt(RM, a[0])
        if self.op == 'abs':
            return z3.fpAbs(a[0])
        if self.op == 'neg':
            return z3.fpNeg(a[0])
        if self.op == 'where':
            return z3.If(self.cond.formula(leaf), a[0], a[1])
        raise FPUnsupported(self.op)


class Cond:
    def __init__(self, op, left, right):
        self.op, self.left, self.right = op, left, right

    def formula(self, leaf):
        l, r = self.left.term(leaf), self.right.term(leaf)
        return {'>': z3.fpGT, '>=': z3.fpGEQ, '<': z3.fpLT, '<=': z3.fpLEQ}[self.op](l, r)


MIN_SUB = 5e-324


def _refine(ranges, cond, truth):
    """input ranges under `cond` (truth) / its negation: only  input <op> constant  is refined, anything else is kept"""
    out = dict(ranges)
    if cond.left.op == 'in' and cond.right.op == 'const':
        n, c = cond.left.name, cond.right.lo
        lo, hi = ranges[n]
        op = cond.op if truth else {'>': '<=', '>=': '<', '<': '>=', '<=': '>'}[cond.op]
        if op == '>':
            lo = max(lo, math.nextafter(c, math.inf))
        elif op == '>=':
            lo = max(lo, c)
        elif op == '<':
            hi = min(hi, math.nextafter(c, -math.inf))
        else:
            hi = min(hi, c)
        out[n] = (lo, hi)
    return out


class Extractor:
    """statements of the real function -> Node DAG per local name (elementwise reading)"""

    def __init__(self, mod, fdef, inputs, np_alias='np'):
        self.mod, self.fdef, self.inputs = mod, fdef, inputs
        self.np = np_alias
        self.stmts = {}           # local name -> ast expr (last straight-line assignment)
        self.opaque = set()
        for st in fdef.body:
            if isinstance(st, ast.Expr) and isinstance(st.value, ast.Constant):
                continue
            if isinstance(st, ast.Assign) and len(st.targets) == 1:
                t = st.targets[0]
                if isinstance(t, ast.Name):
                    self.stmts[t.id] = st.value
                    continue
                if isinstance(t, ast.Tuple) and all(isinstance(e, ast.Name) for e in t.elts):
                    for e in t.elts:
                        self.opaque.add(e.id)
                    continue
            if isinstance(st, ast.Return):
                continue
            raise FPUnsupported("statement outside the straight-line subset at line %d" % st.lineno)

    def _npcall(self, node):
        f = node.func
        if isinstance(f, ast.Attribute) and isinstance(f.value, ast.Name) and f.value.id == self.np:
            return f.attr
        return None

    def build(self, expr, ranges, memo=None):
        """-> Node with intervals computed under `ranges` (input name -> (lo, hi))"""
        src = ast.get_source_segment(self.mod.text, expr) or ''
        line = getattr(expr, 'lineno', 0)
        mk = lambda op, args, lo, hi, **kw: Node(op, args, _down(lo), _up(hi), src=src, line=line, **kw)
        if isinstance(expr, ast.Constant) and isinstance(expr.value, (int, float)) and not isinstance(expr.value, bool):
            c = float(expr.value)
            if int(c) != expr.value and isinstance(expr.value, int):
                raise FPUnsupported("integer constant not exactly representable")
            return Node('const', [], c, c, src=src, line=line)
        if isinstance(expr, ast.Name):
            if expr.id in self.inputs:
                lo, hi = ranges[expr.id]
                return Node('in', [], lo, hi, name=expr.id, src=src, line=line)
            if expr.id in self.stmts:
                return self.build(self.stmts[expr.id], ranges)
            raise FPUnsupported("name %s has no elementwise reading" % expr.id)
        if isinstance(expr, ast.BinOp):
            a, b = self.build(expr.left, ranges), self.build(expr.right, ranges)
            if isinstance(expr.op, ast.Add):
                return mk('add', [a, b], a.lo + b.lo, a.hi + b.hi)
            if isinstance(expr.op, ast.Sub):
                return mk('sub', [a, b], a.lo - b.hi, a.hi - b.lo)
            if isinstance(expr.op, ast.Mult):
                ps = [a.lo * b.lo, a.lo * b.hi, a.hi * b.lo, a.hi * b.hi]
                return mk('mul', [a, b], min(ps), max(ps))
            if isinstance(expr.op, ast.Div):
                if b.lo <= 0.0 <= b.hi:
                    raise FPUnsupported("divisor range contains zero at line %d: %s in [%g, %g]" % (line, b.src, b.lo, b.hi))
                qs = [a.lo / b.lo, a.lo / b.hi, a.hi / b.lo, a.hi / b.hi]
                return mk('div', [a, b], min(qs), max(qs))
            raise FPUnsupported("operator %s" % type(expr.op).__name__)
        if isinstance(expr, ast.UnaryOp) and isinstance(expr.op, ast.USub):
            a = self.build(expr.operand, ranges)
            return Node('neg', [a], -a.hi, -a.lo, src=src, line=line)
        if isinstance(expr, ast.Call):
            fn = self._npcall(expr)
            if fn == 'square':
                a = self.build(expr.args[0], ranges)
                m = max(abs(a.lo), abs(a.hi))
                lo = 0.0 if a.lo <= 0.0 <= a.hi else min(abs(a.lo), abs(a.hi)) ** 2
                return mk('mul', [a, a], lo, m * m)
            if fn == 'sqrt':
                a = self.build(expr.args[0], ranges)
                if a.lo < 0:
                    raise FPUnsupported("sqrt argument may be negative at line %d" % line)
                return mk('sqrt', [a], math.sqrt(a.lo), math.sqrt(a.hi))
            if fn in ('abs', 'absolute', 'fabs'):
                a = self.build(expr.args[0], ranges)
                lo = 0.0 if a.lo <= 0.0 <= a.hi else min(abs(a.lo), abs(a.hi))
                return Node('abs', [a], lo, max(abs(a.lo), abs(a.hi)), src=src, line=line)
            if fn == 'ones' or fn == 'ones_like':
                return Node('const', [], 1.0, 1.0, src=src, line=line)
            if fn == 'where' and len(expr.args) == 3:
                c = expr.args[0]
                if not (isinstance(c, ast.Compare) and len(c.ops) == 1):
                    raise FPUnsupported("np.where condition")
                opn = {ast.Gt: '>', ast.GtE: '>=', ast.Lt: '<', ast.LtE: '<='}.get(type(c.ops[0]))
                if opn is None:
                    raise FPUnsupported("np.where comparison")
                cond = Cond(opn, self.build(c.left, ranges), self.build(c.comparators[0], ranges))
                a = self.build(expr.args[1], _refine(ranges, cond, True))
                b = self.build(expr.args[2], _refine(ranges, cond, False))
                return Node('where', [a, b], min(a.lo, b.lo), max(a.hi, b.hi), src=src, line=line, cond=cond)
            if fn == 'diag' and len(expr.args) == 1:
                return self.build(expr.args[0], ranges)        # IT[i, i] of np.diag(v) is v[i]
            raise FPUnsupported("call %s has no elementwise reading" % (src[:40]))
        raise FPUnsupported("expression %s" % type(expr).__name__)


def _inr(t, lo, hi):
    return z3.And(z3.fpGEQ(t, V(lo)), z3.fpLEQ(t, V(hi)))


def _is_leafish(n):
    return n.op in ('in', 'const') or (n.op in ('abs', 'neg') and _is_leafish(n.args[0]))


def step_obligations(root, fn_label):
    """one obligation per arithmetic node: operands in their intervals |- result in its interval (and not NaN)"""
    out, seen = [], set()

    def operand(n, env):
        """z3 term for an operand of a step + hypotheses; inputs stay inputs (so that d*d and |d| see the same d)"""
        if n.op == 'in':
            v = z3.FP('in_' + n.name, F64)
            env.append(_inr(v, n.lo, n.hi))
            return v
        if n.op == 'const':
            return V(n.lo)
        if n.op == 'abs' and _is_leafish(n.args[0]):
            return z3.fpAbs(operand(n.args[0], env))
        if n.op == 'neg' and _is_leafish(n.args[0]):
            return z3.fpNeg(operand(n.args[0], env))
        v = z3.FP('cut_%d' % n.id, F64)
        env.append(_inr(v, n.lo, n.hi))
        return v

    def walk(n):
        for a in n.args:
            walk(a)
        if n.op == 'where':
            walk(n.cond.left)
            walk(n.cond.right)
        if n.op in ('add', 'sub', 'mul', 'div', 'sqrt') or (n.op in ('abs', 'neg') and not _is_leafish(n)):
            key = (n.op, tuple((a.op, a.name, a.lo, a.hi) for a in n.args), n.lo, n.hi, n.src)
            if key in seen:
                return
            seen.add(key)
            hyps = []
            if n.op == 'mul' and n.args[0] is n.args[1]:
                x = operand(n.args[0], hyps)
                t = z3.fpMul(RM, x, x)
            else:
                ops = [operand(a, hyps) for a in n.args]
                t = {'add': lambda: z3.fpAdd(RM, *ops), 'sub': lambda: z3.fpSub(RM, *ops), 'mul': lambda: z3.fpMul(RM, *ops),
                     'div': lambda: z3.fpDiv(RM, *ops), 'sqrt': lambda: z3.fpSqrt(RM, ops[0]), 'abs': lambda: z3.fpAbs(ops[0]),
                     'neg': lambda: z3.fpNeg(ops[0])}[n.op]()
            nm = "fp64:%s:range@L%d:%s in [%.6g, %.6g]" % (fn_label, n.line, ' '.join(n.src.split())[:60], n.lo, n.hi)
            out.append((nm, hyps, _inr(t, n.lo, n.hi)))

    walk(root)
    return out


def _solve(args):
    name, smt, timeout_ms = args
    t0 = time.time()
    ctx = z3.Context()
    s = z3.Solver(ctx=ctx)
    s.set('timeout', timeout_ms)
    s.from_string(smt)
    r = s.check()
    model = None
    if r == z3.sat:
        m = s.model()
        model = {}
        for dcl in m.decls():
            v = m[dcl]
            try:
                model[dcl.name()] = float(eval(str(z3.simplify(z3.fpToReal(v))).replace('?', ''))) if False else str(v)
            except Exception:
                model[dcl.name()] = str(v)
    return name, str(r), time.time() - t0, model


def _smt(hyps, goal):
    s = z3.Solver()
    for h in hyps:
        s.add(h)
    s.add(z3.Not(goal))
    return s.to_smt2()


def fp_to_float(s):
    """z3 model string of a Float64 value -> python float"""
    v = z3.FPVal(0.0, F64)
    try:
        import re
        s = s.strip()
        if s in ('+oo', 'oo'):
            return math.inf
        if s == '-oo':
            return -math.inf
        if s == 'NaN':
            return math.nan
        m = re.match(r'^(-?)([0-9.]+)(?:\*\(2\*\*(-?\d+)\))?$', s.replace(' ', ''))
        if m:
            x = float(m.group(2)) * (2.0 ** int(m.group(3)) if m.group(3) else 1.0)
            return -x if m.group(1) else x
        return float(s)
    except Exception:
        return None


def run(spec, repo, timeout_s, procs=8):
    """spec: dict(qualname, inputs={name: (lo, hi)}, value=[local names multiplied together], ensures label)
    -> list of result dicts (name, verdict in proved/refuted/unknown, time, backend, model) + extraction info"""
    mod, fdef = repo.find_function(spec['qualname'])
    label = spec['qualname'].replace('fast_ticc.', '')
    ex = Extractor(mod, fdef, spec['inputs'])
    ranges = dict(spec['inputs'])
    # the contract's value: product of the elementwise readings of the named locals (SC * IT[i, i])
    nodes = [ex.build(ast.Name(id=n, lineno=0), ranges) if n in ex.stmts else None for n in spec['value']]
    if any(n is None for n in nodes):
        raise FPUnsupported("local %s is not assigned in %s" % (spec['value'], label))
    steps = []
    for n in nodes:
        steps += step_obligations(n, label)
    # final obligation = FP reading of the contract clause, over the cut values
    hyps, terms = [], []
    for n in nodes:
        v = z3.FP('cut_%d' % n.id, F64)
        hyps.append(_inr(v, n.lo, n.hi))
        terms.append(v)
    prod = terms[0]
    for t in terms[1:]:
        prod = z3.fpMul(RM, prod, t)
    goal = z3.And(z3.fpGT(prod, V(0.0)), z3.Not(z3.fpIsInf(prod)), z3.Not(z3.fpIsNaN(prod)))
    steps.append(("fp64:%s:post:%s" % (label, spec['label']), hyps, goal))
    # de-duplicate by name
    uniq, names = [], set()
    for s in steps:
        if s[0] not in names:
            names.add(s[0])
            uniq.append(s)
    jobs = [(nm, _smt(h, g), int(timeout_s * 1000)) for nm, h, g in uniq]
    t0 = time.time()
    with mp.get_context('fork').Pool(min(procs, len(jobs))) as pool:
        res = pool.map(_solve, jobs)
    results = []
    for nm, r, t, model in res:
        results.append(dict(name=nm, verdict={'unsat': 'proved', 'sat': 'refuted'}.get(r, 'unknown'), time=t, backend='z3-fp64', model=model))
    info = dict(function=spec['qualname'], sha=mod.ast_sha(fdef), steps=len(uniq), wall_s=round(time.time() - t0, 1),
                input_ranges={k: list(v) for k, v in ranges.items()},
                dropped="np.linalg.eigh (its eigenvalues are the symbolic inputs), np.diag, the matrix product q @ inner_term @ q.T")
    return results, info


def whole_search(spec, repo, timeout_s):
    """uncut search for a concrete input violating the clause: a model here is an input of the real function"""
    mod, fdef = repo.find_function(spec['qualname'])
    ex = Extractor(mod, fdef, spec['inputs'])
    ranges = dict(spec['inputs'])
    nodes = [ex.build(ast.Name(id=n, lineno=0), ranges) for n in spec['value']]
    leafs = {}
    leaf = lambda n: leafs.setdefault(n, z3.FP('in_' + n, F64))
    full = nodes[0].term(leaf)
    for n in nodes[1:]:
        full = z3.fpMul(RM, full, n.term(leaf))
    hy = [_inr(leaf(n), lo, hi) for n, (lo, hi) in ranges.items()]
    g = z3.And(z3.fpGT(full, V(0.0)), z3.Not(z3.fpIsInf(full)), z3.Not(z3.fpIsNaN(full)))
    nm, r, t, model = _solve(('search', _smt(hy, g), int(timeout_s * 1000)))
    out = dict(result=r, time=round(t, 1), model=model)
    if r == 'sat' and model:
        out['counterexample'] = {k[3:]: fp_to_float(v) for k, v in model.items() if k.startswith('in_')}
    return out


def concrete_values(spec, repo, n=200, seed=1):
    """cross-check of the extraction: the extracted binary64 term evaluated by z3 (simplify on literals) at n points;
    native/fp_replay.py compares these bit patterns with what the REAL function returns on the same inputs"""
    import random
    import struct
    mod, fdef = repo.find_function(spec['qualname'])
    ex = Extractor(mod, fdef, spec['inputs'])
    ranges = dict(spec['inputs'])
    nodes = [ex.build(ast.Name(id=nm, lineno=0), ranges) for nm in spec['value']]
    rng = random.Random(seed)
    names = sorted(ranges)
    out = []
    for i in range(n):
        pt = {}
        for nm in names:
            lo, hi = ranges[nm]
            mag = 10.0 ** rng.uniform(-100, 100) * rng.uniform(1.0, 10.0)
            if rng.random() < 0.1:
                mag = float(rng.choice([1.0, 2.0, 0.5, 1e-8, 1e8, 1e16, 4.0]))
            v = -mag if (lo < 0 and rng.random() < 0.5) else mag
            if i == 0 and lo <= 0.0 <= hi:
                v = 0.0
            pt[nm] = min(max(v, lo), hi)
        leaf = lambda nm: V(pt[nm])
        t = nodes[0].term(leaf)
        for nd in nodes[1:]:
            t = z3.fpMul(RM, t, nd.term(leaf))
        bv = z3.simplify(z3.fpToIEEEBV(t))
        if not z3.is_bv_value(bv):
            raise FPUnsupported("extracted term does not evaluate to a literal")
        out.append(dict(point=pt, bits=bv.as_long(), value=struct.unpack('<d', struct.pack('<Q', bv.as_long()))[0]))
    return out
