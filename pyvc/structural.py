"""Structural (AST data-flow) obligations over the real source: effects, decorators, handlers, caller-data stores.
Each analysis returns [(name, ok, detail)].  They are decided syntactically on /repo's current text; a construct
the analysis does not understand makes the obligation fail closed (ok=False) with the reason."""
import ast
import os

PKG = 'fast_ticc'


def all_functions(repo):
    """-> list of (modqual, localname, FunctionDef, Module)"""
    out = []
    base = os.path.join(repo.src, PKG)
    for root, _, files in os.walk(base):
        for f in sorted(files):
            if not f.endswith('.py'):
                continue
            rel = os.path.relpath(os.path.join(root, f), repo.src)[:-3].replace(os.sep, '.')
            if rel.endswith('.__init__'):
                rel = rel[:-9]
            try:
                mod = repo.module(rel)
            except Exception:
                continue
            for name, fd in mod.functions.items():
                out.append((rel, name, fd, mod))
    return out


def dotted(mod, node):
    parts = []
    while isinstance(node, ast.Attribute):
        parts.append(node.attr)
        node = node.value
    if not isinstance(node, ast.Name):
        return None
    head = node.id
    parts.reverse()
    if head in mod.imports:
        return '.'.join([mod.imports[head]] + parts)
    return '.'.join([head] + parts)


# ------------------------------------------------------------------ C14: effects
EFFECT_PREFIXES = ('random.', 'numpy.random', 'time.', 'datetime.', 'uuid.', 'secrets.', 'os.getpid', 'os.urandom',
                   'os.environ', 'os.getenv', 'threading.', 'socket.', 'sklearn.', 'tempfile.', 'glob.', 'builtins.id',
                   'builtins.hash', 'builtins.input', 'builtins.open', 'id', 'hash', 'input', 'open')
ALLOWED_EFFECTS = {
    ('fast_ticc.cluster_maintenance', '_move_random_points', 'random.sample'),
    ('fast_ticc.cluster_label_assignment', 'build_initial_clusters', 'sklearn.mixture.GaussianMixture'),
    ('fast_ticc.main_loop', '_init_task_pool', 'os.environ.get'),
}


def effects(repo):
    res = []
    seen_allowed = set()
    for modq, name, fd, mod in all_functions(repo):
        bad = []
        for n in ast.walk(fd):
            if isinstance(n, (ast.Global, ast.Nonlocal)):
                bad.append("%s statement at line %d" % (type(n).__name__.lower(), n.lineno))
            if isinstance(n, ast.Call):
                d = dotted(mod, n.func)
                if d and any(d == p.rstrip('.') or d.startswith(p) for p in EFFECT_PREFIXES):
                    key = (modq, name.split('.')[-1] if '.' in name else name, d)
                    if key in ALLOWED_EFFECTS:
                        seen_allowed.add(key)
                    elif d in ('id', 'hash', 'open', 'input') and d not in mod.imports and any(
                            isinstance(x, ast.FunctionDef) and x.name == d for x in ast.walk(mod.tree)):
                        pass
                    else:
                        bad.append("call of %s at line %d" % (d, n.lineno))
        res.append(("%s.%s:no-hidden-input" % (modq.replace(PKG + '.', ''), name), not bad,
                    '; '.join(bad) or "reads no RNG / clock / pid / environment beyond the three declared sites"))
    # the declared effect sites must still be where they are declared (RNG read in program order in the parent)
    for key in sorted(ALLOWED_EFFECTS):
        res.append(("declared-effect-site:%s.%s:%s" % (key[0].replace(PKG + '.', ''), key[1], key[2]), key in seen_allowed,
                    "present" if key in seen_allowed else "declared effect site not found (moved or renamed)"))
    return res


def module_state(repo):
    """no module-level mutable state is written by functions; caches only via functools.cache on the four known functions"""
    res = []
    cached = []
    for modq, name, fd, mod in all_functions(repo):
        for d in fd.decorator_list:
            dd = dotted(mod, d.func if isinstance(d, ast.Call) else d)
            if dd and ('cache' in dd):
                cached.append("%s.%s" % (modq, name))
    expect = {'fast_ticc.admm.unique_values._compressed_index', 'fast_ticc.admm.unique_values.locations_compressed',
              'fast_ticc.admm.unique_values.locations_index_slices', 'fast_ticc.matrix_compression._upper_triangle_indices'}
    res.append(("memoised-functions-are-the-four-known-ones", set(cached) == expect,
                "memoised: %s" % sorted(cached)))
    # module-level names bound to mutable literals / constructors that some function mutates
    for modq in sorted(set(m for m, _, _, _ in all_functions(repo))):
        mod = repo.module(modq)
        mut = set()
        for n, v in mod.globals.items():
            if isinstance(v, (ast.Dict, ast.List, ast.Set)) or (isinstance(v, ast.Call) and dotted(mod, v.func) in
                                                                 ('dict', 'list', 'set', 'collections.defaultdict', 'collections.OrderedDict')):
                mut.add(n)
        mut.discard('__all__')
        # objects that carry hidden state between calls: private random generators, counters, queues
        stateful = {n for n, v in mod.globals.items() if isinstance(v, ast.Call) and (dotted(mod, v.func) or '') in
                    ('random.Random', 'random.SystemRandom', 'numpy.random.default_rng', 'numpy.random.RandomState', 'numpy.random.Generator',
                     'itertools.count', 'collections.deque', 'collections.Counter', 'threading.local')}
        writes = []
        for name, fd in mod.functions.items():
            glob = {g for n in ast.walk(fd) if isinstance(n, ast.Global) for g in n.names}
            local = ({a.arg for a in fd.args.args} | {t.id for t in ast.walk(fd) if isinstance(t, ast.Name) and isinstance(t.ctx, ast.Store)}) - glob
            for n in ast.walk(fd):
                tgt = None
                if isinstance(n, (ast.Subscript, ast.Attribute)) and isinstance(n.ctx, ast.Store):
                    tgt = n.value
                if isinstance(n, ast.Call) and isinstance(n.func, ast.Attribute) and n.func.attr in MUTATORS:
                    tgt = n.func.value
                if isinstance(tgt, ast.Name) and tgt.id in mut and tgt.id not in local:
                    writes.append("%s writes module-level %s at line %d" % (name, tgt.id, n.lineno))
                if isinstance(n, ast.Call) and isinstance(n.func, ast.Attribute) and isinstance(n.func.value, ast.Name) and \
                        n.func.value.id in stateful and n.func.value.id not in local:
                    writes.append("%s advances the module-level stateful object %s (.%s) at line %d" % (name, n.func.value.id, n.func.attr, n.lineno))
            # rebinding a module-level name from inside a function (`global X; X = ...`)
            declared = {g for n in ast.walk(fd) if isinstance(n, ast.Global) for g in n.names}
            for n in ast.walk(fd):
                if isinstance(n, ast.Name) and isinstance(n.ctx, ast.Store) and n.id in declared:
                    writes.append("%s rebinds module-level %s at line %d" % (name, n.id, n.lineno))
        res.append(("%s:no-module-level-state-written" % modq.replace(PKG + '.', ''), not writes, '; '.join(writes) or "none"))
    return res


MUTATORS = {'append', 'extend', 'insert', 'pop', 'remove', 'clear', 'sort', 'reverse', 'add', 'discard', 'update', 'setdefault',
            'fill', 'resize', 'put', 'itemset', 'setflags', 'popitem', 'partition'}


def cached_results_not_mutated(repo):
    """results of the memoised functions are shared between calls: no caller may mutate them"""
    cached_names = {'_compressed_index', 'locations_compressed', 'locations_index_slices', '_upper_triangle_indices'}
    res = []
    for modq, name, fd, mod in all_functions(repo):
        bound = set()
        for n in ast.walk(fd):
            if isinstance(n, ast.Assign) and isinstance(n.value, ast.Call):
                d = dotted(mod, n.value.func) or ''
                if d.split('.')[-1] in cached_names:
                    for t in n.targets:
                        for x in ast.walk(t):
                            if isinstance(x, ast.Name):
                                bound.add(x.id)
        bad = []
        for n in ast.walk(fd):
            tgt = None
            if isinstance(n, ast.Subscript) and isinstance(n.ctx, ast.Store):
                tgt = n.value
            if isinstance(n, ast.AugAssign):
                tgt = n.target
            if isinstance(n, ast.Call) and isinstance(n.func, ast.Attribute) and n.func.attr in MUTATORS:
                tgt = n.func.value
            if isinstance(tgt, ast.Name) and tgt.id in bound:
                bad.append("mutates %s (a memoised result) at line %d" % (tgt.id, n.lineno))
        if bound:
            res.append(("%s.%s:memoised-results-only-read" % (modq.replace(PKG + '.', ''), name), not bad, '; '.join(bad) or
                        "names bound to memoised results: %s" % sorted(bound)))
    return res


def pool_api(repo):
    """results are gathered through AsyncResult.get() by index only: no completion-order API"""
    bad = []
    for modq, name, fd, mod in all_functions(repo):
        for n in ast.walk(fd):
            if isinstance(n, ast.Call) and isinstance(n.func, ast.Attribute):
                if n.func.attr in ('imap_unordered', 'imap', 'map_async', 'starmap_async', 'as_completed', 'apply'):
                    bad.append("%s.%s uses %s at line %d" % (modq, name, n.func.attr, n.lineno))
                if n.func.attr in ('ready', 'successful', 'wait') and not n.args[1:] and not n.keywords:
                    # AsyncResult.ready()/successful()/wait(t): the answer depends on how far the workers have got
                    bad.append("%s.%s queries task completion state with .%s() at line %d (timing-dependent control flow)"
                               % (modq, name, n.func.attr, n.lineno))
                if n.func.attr == 'apply_async':
                    if any(k.arg in ('callback', 'error_callback') for k in n.keywords) or len(n.args) > 3:
                        bad.append("%s.%s passes a callback to apply_async at line %d" % (modq, name, n.lineno))
    return [("pool-results-gathered-by-index-only", not bad, '; '.join(bad) or "apply_async without callbacks + get() only")]


# ------------------------------------------------------------------ C15: numba side conditions
def numba_decorators(repo):
    res = []
    want = {('fast_ticc.cluster_label_assignment', 'assign_point_cluster_labels'): dict(parallel=False),
            ('fast_ticc.likelihood', 'point_log_likelihood_fast'): dict(),
            ('fast_ticc.likelihood', 'all_points_all_clusters_log_likelihood_fast'): dict(parallel=True)}
    found = {}
    for modq, name, fd, mod in all_functions(repo):
        for d in fd.decorator_list:
            call = d if isinstance(d, ast.Call) else None
            dd = dotted(mod, call.func if call else d) or ''
            if 'njit' in dd or 'jit' in dd.split('.')[-1]:
                kws = {}
                ok_form = call is not None and all(isinstance(k.value, ast.Constant) for k in call.keywords) and not call.args
                if call is not None:
                    for k in call.keywords:
                        kws[k.arg] = k.value.value if isinstance(k.value, ast.Constant) else '<expr>'
                found[(modq, name)] = (dd, kws, ok_form)
    for key, exp in want.items():
        if key not in found:
            res.append(("%s.%s:jit-decorator" % (key[0].replace(PKG + '.', ''), key[1]), False, "njit decorator not found"))
            continue
        dd, kws, ok_form = found[key]
        bad = []
        if dd != 'fast_ticc.numba_guard.njit':
            bad.append("decorator is %s, not numba_guard.njit" % dd)
        if not ok_form:
            bad.append("decorator arguments are not literal keywords")
        for forbidden in ('fastmath', 'error_model', 'boundscheck', 'nogil', 'forceobj', 'looplift'):
            if forbidden in kws and kws[forbidden] not in (False, None):
                bad.append("%s=%r" % (forbidden, kws[forbidden]))
        if bool(kws.get('parallel', False)) != bool(exp.get('parallel', False)):
            bad.append("parallel=%r (expected %r)" % (kws.get('parallel', False), exp.get('parallel', False)))
        res.append(("%s.%s:jit-decorator-flags" % (key[0].replace(PKG + '.', ''), key[1]), not bad, '; '.join(bad) or str(kws)))
    extra = set(found) - set(want)
    res.append(("no-other-function-is-jit-compiled", not extra, "also jitted: %s" % sorted(extra) if extra else "three kernels only"))
    return res


def prange_race_freedom(repo):
    """inside the parallel loop every store goes to result[<prange variable>, ...]; no scalar accumulation across iterations"""
    mod, fd = repo.find_function('fast_ticc.likelihood.all_points_all_clusters_log_likelihood_fast')
    res = []
    loops = [n for n in ast.walk(fd) if isinstance(n, ast.For) and isinstance(n.iter, ast.Call) and
             (dotted(mod, n.iter.func) or '').endswith('prange')]
    if len(loops) != 1 or not isinstance(loops[0].target, ast.Name):
        return [("parallel-loop-shape", False, "expected exactly one prange loop with a simple index variable")]
    lp = loops[0]
    v = lp.target.id
    bad = []
    shared_writes = []
    assigned_inside = set()
    for n in ast.walk(lp):
        if isinstance(n, ast.For) and n is not lp and isinstance(n.target, ast.Name):
            assigned_inside.add(n.target.id)
    for n in ast.walk(lp):
        if isinstance(n, ast.Assign):
            for t in n.targets:
                if isinstance(t, ast.Subscript):
                    idx = t.slice.elts[0] if isinstance(t.slice, ast.Tuple) else t.slice
                    if not (isinstance(idx, ast.Name) and idx.id == v):
                        bad.append("store at line %d is not indexed by the parallel index first" % n.lineno)
                elif isinstance(t, ast.Name):
                    assigned_inside.add(t.id)
                else:
                    bad.append("store to %s at line %d" % (type(t).__name__, n.lineno))
        if isinstance(n, ast.AugAssign):
            bad.append("augmented assignment at line %d (cross-iteration accumulation)" % n.lineno)
        if isinstance(n, ast.Expr) and isinstance(n.value, ast.Call):
            # a call whose value is discarded is evaluated for its side effect; threads share everything allocated outside the loop
            bad.append("call evaluated for its side effect at line %d (%s)" % (n.lineno, dotted(mod, n.value.func) or ast.dump(n.value.func)[:40]))
        if isinstance(n, ast.Call):
            outs = [k.value for k in n.keywords if k.arg == 'out']
            d = dotted(mod, n.func) or ''
            if d.startswith('numpy.') and len(n.args) >= 3:
                outs.append(n.args[2])      # ufunc(a, b, out)
            if isinstance(n.func, ast.Attribute) and n.func.attr in MUTATORS:
                outs.append(n.func.value)
            for o in outs:
                base = o
                while isinstance(base, (ast.Subscript, ast.Attribute)):
                    base = base.value
                if isinstance(base, ast.Name):
                    shared_writes.append((base.id, n.lineno))
    for name, line in shared_writes:
        if name not in assigned_inside:
            bad.append("buffer %s allocated outside the parallel loop is written by every iteration at line %d" % (name, line))
    # values read inside the loop must not be written inside it, other than loop-local names and result[v, ...]
    res.append(("parallel-loop:iterations-write-disjoint-cells-and-share-nothing", not bad, '; '.join(bad) or
                "only store: result[%s, ...]" % v))
    return res


def numba_fallback(repo):
    """without Numba: njit(*a, **k)(f) calls f with the same arguments and returns its result; prange is range"""
    mod = repo.module('fast_ticc.numba_guard')
    res = []
    nd = mod.functions.get('noop_decorator')
    ok = False
    detail = "noop_decorator not found"
    if nd is not None:
        inner = [n for n in nd.body if isinstance(n, ast.FunctionDef)]
        rets = [n for n in nd.body if isinstance(n, ast.Return)]
        if len(inner) == 1 and len(rets) == 1 and isinstance(rets[0].value, ast.Name) and rets[0].value.id == inner[0].name:
            w = inner[0]
            body = [s for s in w.body if not (isinstance(s, ast.Expr) and isinstance(s.value, ast.Constant))]
            if (w.args.vararg and w.args.kwarg and len(body) == 1 and isinstance(body[0], ast.Return) and
                    isinstance(body[0].value, ast.Call) and isinstance(body[0].value.func, ast.Name) and
                    body[0].value.func.id == nd.args.args[0].arg and
                    any(isinstance(a, ast.Starred) and isinstance(a.value, ast.Name) and a.value.id == w.args.vararg.arg
                        for a in body[0].value.args) and
                    any(k.arg is None and isinstance(k.value, ast.Name) and k.value.id == w.args.kwarg.arg
                        for k in body[0].value.keywords)):
                ok = True
                detail = "wrapped(*args, **kwargs) returns func(*args, **kwargs)"
            else:
                detail = "wrapper does not forward *args/**kwargs and return the result"
    res.append(("numba_guard.noop_decorator:pass-through", ok, detail))
    fj = mod.functions.get('fake_njit')
    ok = False
    detail = "fake_njit not found"
    if fj is not None:
        names = [n.value.id for n in ast.walk(fj) if isinstance(n, ast.Assign) and isinstance(n.value, ast.Name)]
        rets = [n for n in ast.walk(fj) if isinstance(n, ast.Return)]
        ok = 'noop_decorator' in names and len(rets) == 1 and isinstance(rets[0].value, ast.Name)
        detail = "returns noop_decorator when Numba is unavailable" if ok else "fallback branch does not return noop_decorator"
    res.append(("numba_guard.fake_njit:returns-the-pass-through-decorator", ok, detail))
    fp = mod.functions.get('fake_prange')
    ok = False
    if fp is not None:
        rets = [n for n in ast.walk(fp) if isinstance(n, ast.Return) and isinstance(n.value, ast.Call)]
        ok = any(isinstance(r.value.func, ast.Name) and r.value.func.id == 'range' and
                 any(isinstance(a, ast.Starred) for a in r.value.args) for r in rets)
    res.append(("numba_guard.fake_prange:is-range", ok, "returns range(*args, **kwargs)" if ok else "fallback is not range(*args)"))
    # module tail: njit/prange bound to numba's when available and to the fallbacks otherwise
    tail = [n for n in mod.tree.body if isinstance(n, ast.If)]
    ok = False
    for n in tail:
        if isinstance(n.test, ast.Name) and n.test.id == 'NUMBA_AVAILABLE':
            then = {t.targets[0].id: ast.unparse(t.value) for t in n.body if isinstance(t, ast.Assign)}
            els = {t.targets[0].id: ast.unparse(t.value) for t in n.orelse if isinstance(t, ast.Assign)}
            ok = then == {'prange': 'numba.prange', 'njit': 'numba.njit'} and els == {'prange': 'fake_prange', 'njit': 'fake_njit'}
    res.append(("numba_guard:binding-of-njit-and-prange", ok, "numba.njit/numba.prange when importable, fake_njit/fake_prange otherwise"
                if ok else "module tail binds njit/prange differently"))
    return res


# ------------------------------------------------------------------ C20: handlers
def handlers(repo):
    """the only exception handlers are the two front-end type translations (which re-raise) and the pool-release finally"""
    res = []
    allowed = {('fast_ticc.front_end', 'ticc_labels', 'AttributeError'), ('fast_ticc.front_end', 'ticc_joint_labels', 'IndexError')}
    for modq, name, fd, mod in all_functions(repo):
        bad = []
        for n in ast.walk(fd):
            if isinstance(n, ast.Try):
                for h in n.handlers:
                    tname = ast.unparse(h.type) if h.type is not None else '<bare>'
                    reraises = any(isinstance(x, ast.Raise) for x in ast.walk(h))
                    if (modq, name, tname) in allowed and reraises:
                        continue
                    bad.append("except %s at line %d%s" % (tname, h.lineno, '' if reraises else ' (does not re-raise)'))
            if isinstance(n, ast.With):
                for it in n.items:
                    if 'suppress' in ast.unparse(it.context_expr):
                        bad.append("contextlib.suppress at line %d" % n.lineno)
        res.append(("%s.%s:no-handler-swallows-an-error" % (modq.replace(PKG + '.', ''), name), not bad, '; '.join(bad) or "no handler"))
    # the translated errors name the right entry point
    mod = repo.module('fast_ticc.front_end')
    for fn, other in (('ticc_labels', 'ticc_joint_labels'), ('ticc_joint_labels', 'ticc_labels')):
        fd = mod.functions[fn]
        msgs = []
        for n in ast.walk(fd):
            if isinstance(n, ast.Raise) and isinstance(n.exc, ast.Call) and ast.unparse(n.exc.func) == 'TypeError':
                msgs.append(''.join(c.value for c in ast.walk(n.exc) if isinstance(c, ast.Constant) and isinstance(c.value, str)))
        ok = any(other in m for m in msgs)
        res.append(("front_end.%s:TypeError-names-%s" % (fn, other), ok, msgs[0][:120] if msgs else "no TypeError raised"))
    return res


# ------------------------------------------------------------------ C19: syntactic caller-data scan
def caller_data_stores(repo):
    """second line behind the engine's frame obligations: no store / in-place operation / mutating call whose base is a
    parameter (or a direct alias of one) outside the declared sites"""
    allowed = {('fast_ticc.graphical_lasso', '_zero_small_elements'),     # writes `filtered` which aliases `array` only when copy=False
               ('fast_ticc.admm.solver', 'run_admm_optimization'),        # args.rho on a fresh ADMMArguments
               ('fast_ticc.likelihood', 'all_points_all_clusters_log_likelihood')}   # cache fields of the model's clusters
    res = []
    for modq, name, fd, mod in all_functions(repo):
        if '.' in name:         # methods of the containers manage their own state
            continue
        params = {a.arg for a in fd.args.args + fd.args.kwonlyargs}
        alias = set(params)
        for n in ast.walk(fd):
            if isinstance(n, ast.Assign) and len(n.targets) == 1 and isinstance(n.targets[0], ast.Name):
                v = n.value
                while isinstance(v, (ast.Attribute, ast.Subscript)) and not (isinstance(v, ast.Subscript) and isinstance(v.slice, (ast.List, ast.Tuple)) and
                                                                             any(isinstance(e, (ast.List, ast.Name)) for e in getattr(v.slice, 'elts', []))):
                    if isinstance(v, ast.Attribute) and v.attr not in ('T', 'real', 'flat'):
                        break
                    v = v.value
                if isinstance(v, ast.Name) and v.id in alias and isinstance(n.value, (ast.Name,)):
                    alias.add(n.targets[0].id)
                if isinstance(n.value, ast.Call) and (dotted(mod, n.value.func) or '') in ('numpy.asarray', 'numpy.ascontiguousarray', 'numpy.ravel', 'numpy.reshape') \
                        and n.value.args and isinstance(n.value.args[0], ast.Name) and n.value.args[0].id in alias:
                    alias.add(n.targets[0].id)
        rebound = set()
        for n in ast.walk(fd):
            if isinstance(n, ast.Assign):
                for t in n.targets:
                    if isinstance(t, ast.Name) and t.id in params and not (isinstance(n.value, ast.Name) and n.value.id in params):
                        rebound.add(t.id)
        bad = []
        for n in ast.walk(fd):
            tgt, what = None, None
            if isinstance(n, ast.Subscript) and isinstance(n.ctx, ast.Store):
                tgt, what = n.value, 'item assignment'
            elif isinstance(n, ast.Attribute) and isinstance(n.ctx, ast.Store):
                tgt, what = n.value, 'attribute assignment'
            elif isinstance(n, ast.AugAssign) and isinstance(n.target, ast.Name):
                tgt, what = n.target, 'augmented assignment'
            elif isinstance(n, ast.Call) and isinstance(n.func, ast.Attribute) and n.func.attr in MUTATORS:
                tgt, what = n.func.value, 'call of .%s()' % n.func.attr
            elif isinstance(n, ast.Call):
                d = dotted(mod, n.func) or ''
                if d in ('numpy.copyto', 'numpy.fill_diagonal', 'numpy.put', 'numpy.place', 'numpy.putmask') and n.args:
                    tgt, what = n.args[0], 'call of ' + d
                for k in n.keywords:
                    if k.arg == 'out':
                        tgt, what = k.value, 'out= argument'
            while isinstance(tgt, (ast.Attribute, ast.Subscript)):
                tgt = tgt.value
            if isinstance(tgt, ast.Name) and tgt.id in alias and tgt.id not in rebound:
                bad.append("%s on %s at line %d" % (what, tgt.id, n.lineno))
        if (modq, name) in allowed:
            res.append(("%s.%s:stores-into-parameters-are-the-declared-ones" % (modq.replace(PKG + '.', ''), name), True,
                        "declared site: %s" % ('; '.join(bad) or 'none')))
        else:
            res.append(("%s.%s:no-store-into-a-parameter" % (modq.replace(PKG + '.', ''), name), not bad, '; '.join(bad) or "none"))
    return res


# ------------------------------------------------------------------ C07: the masked switching cost must reach the main loop
def masked_cost_dataflow(repo):
    mod, fd = repo.find_function('fast_ticc.front_end.ticc_joint_labels')
    masked = set()      # names whose value depends on label_switching_cost_template(...)
    order = []
    for n in ast.walk(fd):
        if isinstance(n, ast.Assign):
            order.append(n)
    order.sort(key=lambda n: n.lineno)
    bundle_line, bundle_kw, fit_line = None, None, None
    for n in order:
        names = {x.id for x in ast.walk(n.value) if isinstance(x, ast.Name)}
        calls = {(dotted(mod, c.func) or '').split('.')[-1] for c in ast.walk(n.value) if isinstance(c, ast.Call)}
        if 'label_switching_cost_template' in calls or (names & masked):
            for t in n.targets:
                if isinstance(t, ast.Name):
                    masked.add(t.id)
        if 'UserArguments' in calls:
            for c in ast.walk(n.value):
                if isinstance(c, ast.Call) and (dotted(mod, c.func) or '').endswith('UserArguments'):
                    for k in c.keywords:
                        if k.arg == 'label_switching_cost':
                            bundle_line = n.lineno
                            bundle_kw = {x.id for x in ast.walk(k.value) if isinstance(x, ast.Name)}
                            bundle_masked = bool(bundle_kw & masked)
    later_store = False
    for n in ast.walk(fd):
        if isinstance(n, ast.Assign):
            for t in n.targets:
                if isinstance(t, ast.Attribute) and t.attr == 'label_switching_cost':
                    names = {x.id for x in ast.walk(n.value) if isinstance(x, ast.Name)}
                    if names & masked:
                        later_store = True
    ok = bundle_line is not None and (bundle_masked or later_store)
    return [("front_end.ticc_joint_labels:masked-switching-cost-reaches-the-main-loop", ok,
             "the argument bundle is built from %s at line %s; names carrying the boundary mask: %s" %
             (sorted(bundle_kw or []), bundle_line, sorted(masked)))]
