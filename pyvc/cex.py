"""Solver counterexample -> concrete arguments for the real function.

When z3 refutes an obligation (sat with every hypothesis present) the query is solved once more in the main process and
the values of the function's parameters are read out of the model (scalars, lists and arrays of numbers; anything else
makes the decoding give up).  The arguments are then run through the real function under the run-time contract checker
(native/runcheck.py replay-args): only a failure observed there is reported as a failing input."""
import fractions
import json
import os
import subprocess
import tempfile

import z3

from .core import elem_tag
from .kinds import parse_kind

MAX_ELEMS = 400


def _num(m, t, real):
    v = m.eval(t, model_completion=True)
    if z3.is_int_value(v):
        return v.as_long() if not real else float(v.as_long())
    if z3.is_rational_value(v):
        return float(fractions.Fraction(v.numerator_as_long(), v.denominator_as_long()))
    if z3.is_algebraic_value(v):
        return float(v.approx(20).as_fraction())
    if z3.is_true(v) or z3.is_false(v):
        return bool(z3.is_true(v))
    raise ValueError("no numeric value for %s" % v)


def decode(ob, entry, contract, opts=None, timeout_ms=20000):
    """-> (args dict in the replay format, None) or (None, reason)"""
    env, heap = entry
    s = z3.Solver()
    s.set('timeout', timeout_ms)
    for k, v in (opts or {}).items():
        s.set(k, v)
    s.add(*ob.hyps)
    s.add(z3.Not(ob.goal))
    if s.check() != z3.sat:
        return None, 'model not reproduced in the main process'
    m = s.model()
    out = {}
    try:
        for name, kspec in contract.params.items():
            k = parse_kind(kspec) if isinstance(kspec, str) else kspec
            v = env[name]
            if k in ('int', 'real', 'bool'):
                out[name] = dict(kind=k, value=_num(m, v.t, k == 'real'))
            elif isinstance(k, tuple) and k[0] == 'list' and k[1] in ('int', 'real'):
                r = m.eval(v.t, model_completion=True)
                n = _num(m, z3.Select(heap.get('len'), r), False)
                if not (0 <= n <= MAX_ELEMS):
                    return None, 'list %s has length %s in the model' % (name, n)
                arr = z3.Select(heap.get('el:' + elem_tag(k[1])), r)
                out[name] = dict(kind='list', value=[_num(m, z3.Select(arr, z3.IntVal(i)), k[1] == 'real') for i in range(n)])
            elif isinstance(k, tuple) and k[0] == 'arr' and k[1] in (1, 2) and k[2] in ('int', 'real'):
                r = m.eval(v.t, model_completion=True)
                n0 = _num(m, z3.Select(heap.get('sh0'), r), False)
                n1 = _num(m, z3.Select(heap.get('sh1'), r), False) if k[1] == 2 else 1
                if not (0 <= n0 and 0 <= n1 and n0 * n1 <= MAX_ELEMS):
                    return None, 'array %s has shape (%s, %s) in the model' % (name, n0, n1)
                data = z3.Select(heap.get('d%d:%s' % (k[1], elem_tag(k[2]))), r)
                if k[1] == 1:
                    val = [_num(m, z3.Select(data, z3.IntVal(i)), k[2] == 'real') for i in range(n0)]
                else:
                    val = [[_num(m, z3.Select(data, z3.IntVal(i), z3.IntVal(j)), k[2] == 'real') for j in range(n1)] for i in range(n0)]
                out[name] = dict(kind='arr%d' % k[1], dtype=k[2], value=val, shape=[n0, n1][:k[1]])
            else:
                return None, 'parameter %s of kind %r is not decoded from models' % (name, k)
    except (ValueError, KeyError, z3.Z3Exception) as e:
        return None, 'decoding failed: %r' % (e,)
    return out, None


def replay_native(verif, qualname, args, native_py='/venv/bin/python'):
    """run the decoded arguments through the real function under the run-time contract checker"""
    with tempfile.NamedTemporaryFile('w', suffix='.json', delete=False) as fh:
        json.dump(dict(qualname=qualname, args=args), fh)
        path = fh.name
    try:
        p = subprocess.run([native_py, os.path.join(verif, 'native', 'runcheck.py'), 'replay-args', path],
                           capture_output=True, text=True, timeout=300, env=dict(os.environ, NUMBA_DISABLE_JIT='1'))
        line = [l for l in p.stdout.splitlines() if l.startswith('{')]
        return json.loads(line[-1]) if line else dict(status='error', why=p.stderr[-400:])
    except subprocess.TimeoutExpired:
        return dict(status='error', why='timeout')
    finally:
        os.unlink(path)
