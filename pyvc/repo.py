"""Reads the repository source on every run (nothing is copied into /verif)."""
import ast
import hashlib
import os

from .core import Unsupported, ContractError

REPO_SRC = os.environ.get('PYVC_REPO_SRC', '/repo/src')


class Module:
    def __init__(self, qual, path):
        self.qual, self.path = qual, path
        with open(path, 'r') as fh:
            self.text = fh.read()
        self.tree = ast.parse(self.text, filename=path)
        self.lines = self.text.splitlines()
        self.imports = {}       # alias -> dotted target
        self.functions = {}     # local qualified name ("f" or "Class.f" / "Class.p.setter") -> FunctionDef
        self.classes = {}
        self.globals = {}       # module-level simple assignments: name -> ast expr
        for node in self.tree.body:
            self._scan(node)

    def _scan(self, node, in_try=False):
        if isinstance(node, ast.Import):
            for a in node.names:
                self.imports[a.asname or a.name.split('.')[0]] = a.name if a.asname else a.name.split('.')[0]
        elif isinstance(node, ast.ImportFrom):
            for a in node.names:
                self.imports[a.asname or a.name] = (node.module or '') + '.' + a.name
        elif isinstance(node, ast.FunctionDef):
            self.functions[node.name] = node
        elif isinstance(node, ast.ClassDef):
            self.classes[node.name] = node
            for sub in node.body:
                if isinstance(sub, ast.FunctionDef):
                    key = node.name + '.' + sub.name
                    for d in sub.decorator_list:
                        if isinstance(d, ast.Attribute) and d.attr == 'setter':
                            key = node.name + '.' + sub.name + '.setter'
                    self.functions[key] = sub
        elif isinstance(node, ast.Assign) and len(node.targets) == 1 and isinstance(node.targets[0], ast.Name):
            self.globals[node.targets[0].id] = node.value
        elif isinstance(node, ast.AnnAssign) and isinstance(node.target, ast.Name) and node.value is not None:
            self.globals[node.target.id] = node.value
        elif isinstance(node, ast.Try):
            for sub in node.body:
                self._scan(sub, True)
        elif isinstance(node, ast.If):
            pass

    def segment(self, node):
        return ast.get_source_segment(self.text, node) or ''

    def sha(self, node):
        return hashlib.sha256(self.segment(node).encode()).hexdigest()[:16]

    def ast_sha(self, node):
        """hash of the code the verifier actually reads: the AST without positions, docstrings and comments, so that
        re-flowing lines, editing a comment or a docstring does not count as a change of the function"""
        import copy
        n = copy.deepcopy(node)
        for sub in ast.walk(n):
            body = getattr(sub, 'body', None)
            if isinstance(sub, (ast.FunctionDef, ast.ClassDef, ast.AsyncFunctionDef)) and isinstance(body, list) and body and \
                    isinstance(body[0], ast.Expr) and isinstance(body[0].value, ast.Constant) and isinstance(body[0].value.value, str):
                sub.body = body[1:] or [ast.Pass()]
        return hashlib.sha256(ast.dump(n, include_attributes=False).encode()).hexdigest()[:16]

    def is_property(self, cls, name):
        fn = self.functions.get(cls + '.' + name)
        if fn is None:
            return False
        return any(isinstance(d, ast.Name) and d.id == 'property' for d in fn.decorator_list)

    def is_static(self, cls, name):
        fn = self.functions.get(cls + '.' + name)
        return fn is not None and any(isinstance(d, ast.Name) and d.id == 'staticmethod' for d in fn.decorator_list)


class Repo:
    def __init__(self, src=None):
        self.src = src or REPO_SRC
        self.mods = {}

    def module(self, qual):
        if qual not in self.mods:
            rel = qual.replace('.', '/')
            for cand in (os.path.join(self.src, rel + '.py'), os.path.join(self.src, rel, '__init__.py')):
                if os.path.exists(cand):
                    self.mods[qual] = Module(qual, cand)
                    break
            else:
                raise ContractError("module %s not found under %s" % (qual, self.src))
        return self.mods[qual]

    def has_module(self, qual):
        rel = qual.replace('.', '/')
        return os.path.exists(os.path.join(self.src, rel + '.py')) or \
            os.path.exists(os.path.join(self.src, rel, '__init__.py'))

    def find_function(self, qualname):
        """qualname 'pkg.mod.func' or 'pkg.mod.Class.method[.setter]' -> (Module, FunctionDef)"""
        qualname = qualname.split('#')[0]      # contract variants: same function, different parameter kinds
        parts = qualname.split('.')
        for cut in range(len(parts) - 1, 0, -1):
            mq = '.'.join(parts[:cut])
            if self.has_module(mq) and os.path.isfile(os.path.join(self.src, mq.replace('.', '/') + '.py')):
                mod = self.module(mq)
                local = '.'.join(parts[cut:])
                if local in mod.functions:
                    return mod, mod.functions[local]
                raise ContractError("function %s not found in %s" % (local, mq))
        raise ContractError("cannot locate " + qualname)

    def resolve_class(self, mod, name):
        """class name used in module `mod` -> (Module, ClassDef)"""
        if name in mod.classes:
            return mod, mod.classes[name]
        return None
