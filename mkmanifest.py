"""Regenerates MANIFEST.json from the table below (keeps it valid at all times)."""
import json

props = [json.loads(l) for l in open('/verif/properties.jsonl')]
BASELINE = "cd /repo && /venv/bin/python -m pytest -ra -q -p no:cacheprovider --timeout=900 --continue-on-collection-errors"
COMMON = ("Assumed throughout: the VC generator pyvc is itself unverified; machine floats are mathematical reals; numpy / "
          "builtins / multiprocessing / sklearn calls are replaced by the assumed contracts listed in evidence.coverage.trusted_base; "
          "a caller is checked against its callees' contracts (each callee is verified against its own contract by the checks of "
          "the properties that list it). ")
TECH = "contract-based deductive verification of the real source: Python ast -> symbolic execution -> named obligations -> z3 (cvc5 second opinion); sidecar contracts, loop invariants, frame conditions, ghost state"

CLAIMS = {
 'C01': ("Proof for all T, K, real cost tables and both beta forms: the kernel's loop invariants are the Bellman attainment / lower-bound facts; "
         "code-independent induction lemmas (base and step as separate queries, hypotheses taken mechanically from the contract text) give "
         "'reported cost = total of the returned path' and 'minimum over all K^T sequences'. predict_cluster_labels carries the same facts to the "
         "model state.", "4/C01",
         "Numba-compiled execution is covered only by the assumption that Numba compiles the supported subset faithfully (C15). Brute force over "
         "all K^T sequences (T<=6, K<=4) runs as a bounded stand-in and is not counted."),
 'C02': ("Proof of the conditional clause, function by function: soft_threshold_prox is the exact minimiser of the class problem (nonlinear real "
         "arithmetic, all z); the Z-step puts that value on every occurrence of every Toeplitz class (three nested loop invariants over the real "
         "code, class positions pairwise distinct proved as a lemma); the X-step's eigenvalue map solves rho*e - 1/e = d with e > 0; the dual "
         "update and the rho-rescaling keep rho*u; the loop returns the x of the very round whose stopping rule fired, with primal and dual "
         "residuals within the tolerances computed by check_convergence and Z exactly block-Toeplitz.", "4/C02",
         "np.linalg.eigh, the matrix product and spectral calculus are assumed (uninterpreted); convexity => KKT sufficiency is mathematics not "
         "re-proved. The unconditional clause (always stops within the budget for well-conditioned input) is a convergence-rate statement: "
         "NOT decided by contracts, bounded stand-in only (random SPD covariances incl. an adaptive-rho callback: stops within budget, SPD, "
         "block-Toeplitz, no block-Toeplitz perturbation lowers the objective). Matrix-valued lambda: the Z-step's class-value invariant is proved "
         "for both forms (class weight Lambda_class = what compute_lambda_sum returns, a sum over the class positions); the exit contract of "
         "the ADMM loop is stated for the scalar form."),
 'C03': ("Proof of: exact symmetry of every re-inflated matrix (cell-wise, for all n), exactness of the floor filter (comparisons only), finite "
         "log-determinant at the three sites (slogdet; np.linalg.det is modelled with its IEEE underflow clause, which is what refuted the "
         "original log(det(.)) code), per-eigenvalue positivity over the reals AND in IEEE binary64: the elementwise eigenvalue map of x_update_prox is "
         "extracted from the source on every run and rho_scale*new_eigenvalue > 0 and finite is discharged by z3's FloatingPoint theory for every "
         "double d in [-1e100, 1e100] and rho in [1e-100, 1e100] (one interval obligation per operation; DESIGN 2.12).", "4/C03",
         "Positive definiteness of the ASSEMBLED matrix after LAPACK rounding (eigh, the product q diag(e) q^T) is NOT decided; bounded run-time "
         "checks only. Apart from the binary64 obligations of x_update_prox, floats are reals. is_spd of the assembled matrix is an uninterpreted predicate linked to the "
         "per-eigenvalue facts by the assumed spectral calculus."),
 'C04': ("Proof for all T, W, N, K and any number of series: sequence contracts of pad/split/stack, result assembly in fit_stacked_data and both "
         "front ends (label count, exact margins, K MRFs, echoes), unequal series lengths via prefix sums.", "4/C04",
         "GaussianMixture returning one label in [0,K) per row is an assumed contract."),
 'C05': ("Proof that table entries and per-point values are 0.5*(logdet - quadratic form - NW ln 2pi) of exactly the point, the cluster's mean "
         "and the cluster's MRF, and that log-determinants are finite (slogdet).", "4/C05",
         "The quadratic form (operator @), ln and slogdet are uninterpreted functions of the right operands: the proof is of formula structure and "
         "data flow, not of floating-point accuracy; JIT execution by assumption (C15)."),
 'C06': ("Proof of list lengths (one entry per point labelled k, via a counting function), concatenation, sum/mean/median taken over exactly those "
         "lists (0 for an empty cluster), cost == kernel cost, copies in the multi-series result.", "4/C06",
         "Known finding (open): for joint runs the switching cost is also charged on series-boundary pairs (same call site as C07). The "
         "labelling kernel (reported cost = total of the returned path) and the frames of the two scoring functions are part of this check; "
         "cost = -LL + beta*switches end to end is a bounded stand-in."),
 'C07': ("Proof for all tuples of lengths that the mask has its zeros exactly at the boundary pairs (after the fix), that stacking never crosses a "
         "series (C10), that the joint result is split by the stacked lengths.", "4/C07",
         "Known finding (open): the masked vector never reaches the main loop (data-flow obligation on ticc_joint_labels fails; repairing it "
         "changes pinned regression values). The kernel's vector-beta contract (entry i prices the pair (i, i+1)) is part of this check."),
 'C08': ("Proof of: the donor decision procedure (first candidate, >= 2m, stays iff >= 3m), ranking (exactly the clusters with >= 2m points, "
         "ordered by decreasing covariance norm), the sampled points move from the donor to the recipient and nothing else changes, labels stay in "
         "range, points move only from a 2m-donor into an under-populated cluster, identity when nothing is under-populated, the caller's state is "
         "never modified (also when RuntimeError is raised); size accounting: every cluster that had < 2 points gains exactly m (so holds >= m), "
         "every cluster that lost points had >= 2m and keeps >= m, no other cluster grows (loop invariants over label counts; the counting "
         "lemmas for a single-position store and for pointwise-equal lists are proved by induction in the lemma layer).", "4/C08",
         "random.sample (m distinct indices) and sorted are assumed contracts. 'Repeated application across consecutive iterations' follows "
         "from the contract being re-established (wf postcondition) but consecutive rounds are only exercised by the bounded phase-trace check."),
 'C09': ("Proof over the real loop with every phase replaced by its contract: 1 <= rounds <= limit, early exit only when the labelling equals the "
         "previous round's, labels/cost/MRFs returned are those of the final state, the final state was scored last; a ghost typestate on the model "
         "state makes 'repopulate only from round 2, then statistics, then MRFs, then relabel' a chain of call preconditions.", "4/C09",
         "Typestate tags are definitional ghost clauses of the phase contracts. 'every cluster owns a point' at the statistics phase is a "
         "run-completes assumption (the callee asserts it)."),
 'C10': ("Proof for all T, W, N and any number of series of the cell equation of stacking, row offsets of the concatenation, and the "
         "split/pad round trip.", "4/C10", "Payload floats are reals (a copy is the only operation applied to them)."),
 'C11': ("Proof for ALL n, N, W (not only the enumerated range): closed-form rank, both compression round trips, class position lists, positions of "
         "distinct classes pairwise distinct.", "4/C11",
         "np.triu_indices is an assumed contract (row-major enumeration); np.sqrt exact on perfect squares."),
 'C12': ("Proof that the statistics phase fits each cluster to the rows listed in its own (correct) member list with the requested divisor, and that "
         "task k carries cluster k's covariance, the user's lambda, W and N unchanged with the fixed solver settings.", "4/C12",
         "np.cov / np.mean are uninterpreted functions of (rows, flag). The label/membership setters and the argument copies are part of this "
         "check; the phase-trace stand-in (bounded) observes what each fit is actually handed, with the estimator the user requested."),
 'C13': ("Proof of the representation invariant (member list k == ascending list of the points labelled k, by a counting function) for "
         "_update_cluster_membership, the setters, copies, and as postcondition of every phase; deep copies share nothing mutable; each phase's frame "
         "excludes labelling, membership and fitted statistics of the state given.", "4/C13",
         "The scoring phase refreshes the two derived cache fields of the state given (declared in its frame clause)."),
 'C14': ("Proof of the data-flow claims: cluster k of the result is a function of task k and cluster k only (gather by index), task k of cluster k; "
         "syntactic effect obligations: no RNG / clock / pid / environment read outside the three declared sites, no module-level state written, "
         "memoised results never mutated, no completion-order pool API.", "4/C14",
         "multiprocessing.Pool (get() returns f(*args)), BLAS/LAPACK determinism and CPython set iteration order are assumed; real schedules are NOT "
         "explored."),
 'C15': ("Side conditions only: fallback decorator is a pass-through, decorator flags (parallel=False on the sequential kernel, no fastmath), the "
         "prange body writes only result[point, .]; the kernels' own contracts (C01, C05) then apply to every mode.", "4/C15",
         "That Numba-compiled code behaves as its source is ASSUMED; a bounded differential run stands in."),
 'C16': ("Proof that the value returned is P*ln(T) - 2*sum_k(logdet - trace(Theta S)) with P the run-sum of per-cluster counts (loop invariants over "
         "the real code) and that it is finite (slogdet).", "4/C16", "trace/dot/slogdet uninterpreted; real arithmetic. 'S_k is the covariance cluster k was fitted to' across phases is observed by the "
         "bounded phase-trace stand-in (the contract of the BIC function speaks about the state it is given)."),
 'C17': ("Ratio and degrees-of-freedom clause proved; the centre clause of the property is REFUTED on the pinned tree and listed as a known finding "
         "(scalar centre), with the behaviour pinned so that further drift is reported.", "4/C17",
         "Verified for runs in which every cluster is non-empty (as the property states). That the stored cluster means are the means of the FINAL "
         "members is a cross-phase fact outside the function's contract: the bounded check chi_members compares complete converged runs with the "
         "definition and reports the second listed known finding (converged run ending with a cluster of fewer than 2 windows)."),
 'C18': ("Proof that the scalar forms (float, and after the fix int / NumPy scalars) give lambda*(W-b), that a matrix filled with one value gives the "
         "same class weight over the reals, that scalar and vector beta are broadcast to the same per-pair vector.", "4/C18",
         "Bit-identity of float summation orders is NOT claimed (real arithmetic). End-to-end equality of the forms on both front ends is a "
         "bounded stand-in (forms_equivalence); the front ends' frame obligations (no store into a parameter) are part of this check."),
 'C19': ("Frame obligation at every store site of every function on the entry paths (target fresh or named in assigns), unchanged(...) "
         "postconditions on caller data for normal and exceptional exits, plus a syntactic whole-package scan for stores into parameters.", "4/C19",
         "Library calls are assumed not to write their arguments; read-only acceptance by Numba is bounded only. Non-finite inputs do not exist "
         "in the VCs (floats are reals): byte-for-byte comparison of caller arrays after calls with NaN/inf/integer/vector inputs, returning "
         "or raising, is a bounded stand-in."),
 'C20': ("Exceptional postconditions: a worker failure is raised iff some task failed (no handler on the path: a ghost flag makes 'returns after a "
         "failure' an obligation), RuntimeError propagates with the caller state untouched, wrong-kind input raises TypeError naming the other entry "
         "point, the pool is closed and joined on every exit path.", "4/C20", "'never hangs' is liveness: bounded only."),
}

checks = []
for pid, (text, ref, note) in CLAIMS.items():
    cat = 'other' if pid == 'C15' else 'proof'
    checks.append(dict(property_id=pid, quick_cmd="./check %s --tier quick" % pid, thorough_cmd="./check %s --tier thorough" % pid,
                       evidence_file="/verif/evidence/%s.json" % pid, replay_cmd_template="./check %s --replay {path}" % pid,
                       engine="pyvc", level_claimed=dict(category=cat, text=text, design_ref=ref),
                       level_note=COMMON + note, technique=TECH))
na = [dict(property_id=p['id'], reason="not registered") for p in props if p['id'] not in CLAIMS]
m = dict(version=1, setup_cmd="./setup.sh",
         hooks=dict(guard="FAST_TICC_VERIF",
                    enable="no source hooks: contracts are sidecar files under /verif/contracts keyed by qualified function name; "
                           "the native run-time contract checker imports the real functions unmodified",
                    baseline_off_cmd=BASELINE, source_commits=[], add_only=True),
         engines=[dict(name="pyvc", path="/verif/pyvc", serves_properties=sorted(CLAIMS),
                       kind_free_text="home-made deductive verifier: Python ast -> symbolic execution over a Burstall heap -> z3 obligations; "
                                      "sidecar contracts; native run-time contract replay under /venv/bin/python")],
         checks=checks, not_applicable=na,
         notes="exit codes of ./check: 0 held, 1 VIOLATION, 2 UNDECIDED (never a violation), 3 checker crash. "
               "Defects repaired in /repo by 'fix:' commits are listed in /verif/known_findings.json (status fixed); open findings print KNOWN-FINDING.")
json.dump(m, open('/verif/MANIFEST.json', 'w'), indent=1)
print(len(checks), 'checks;', len(na), 'not applicable')
