"""Regenerates MANIFEST.json from the table below (keeps it valid at all times)."""
import json
props = [json.loads(l) for l in open('/verif/properties.jsonl')]
BASELINE = "cd /repo && /venv/bin/python -m pytest -ra -q -p no:cacheprovider --timeout=900 --continue-on-collection-errors"
PROOF_NOTE = ("Assumed: pyvc (the VC generator) is unverified; floats as reals unless tagged fp64; library models "
              "(numpy/builtins) listed in evidence.coverage.trusted_base; callee contracts are used at call sites "
              "(each callee is verified against its own contract under the properties that list it).")
CLAIMS = {
 'C01': dict(text="Deductive: the real kernel body is symbolically executed against a contract whose loop invariants are the "
             "Bellman attainment/lower-bound facts (for all T, K, real tables, scalar and vector beta); code-independent "
             "induction lemmas (base+step) derive 'reported cost = total of returned path' and 'minimum over all K^T sequences' "
             "from the contract text. Unbounded in T and K.", ref="4/C01",
             note=PROOF_NOTE + " Numba-compiled execution is covered only by the assumption that Numba compiles the source faithfully (C15).",
             tech="contract-based deductive verification: AST->z3 VC generation on the real source, loop invariants, induction lemmas"),
 'C10': dict(text="Deductive: cell-wise loop invariants of the real stacking loops, sequence contracts for split/pad, for all T, W, N, series counts.",
             ref="4/C10", note=PROOF_NOTE + " Payload floats are modelled as reals (bit-for-bit copy follows because the only operation applied is a copy).",
             tech="contract-based deductive verification: AST->z3 VC generation on the real source, loop invariants"),
 'C11': dict(text="Deductive: closed-form rank, class-position lists and both compression round trips proved for ALL n, N, W (not only the enumerated range).",
             ref="4/C11", note=PROOF_NOTE + " np.triu_indices is an assumed contract (row-major enumeration); np.sqrt exact on perfect squares.",
             tech="contract-based deductive verification: AST->z3 VC generation on the real source"),
}
checks = []
for pid, c in CLAIMS.items():
    checks.append(dict(property_id=pid, quick_cmd="./check %s --tier quick" % pid, thorough_cmd="./check %s --tier thorough" % pid,
                       evidence_file="/verif/evidence/%s.json" % pid, replay_cmd_template="./check %s --replay {path}" % pid,
                       engine="pyvc", level_claimed=dict(category="proof", text=c['text'], design_ref=c['ref']),
                       level_note=c['note'], technique=c['tech']))
na = [dict(property_id=p['id'], reason="check not yet registered in this commit (machinery under construction; see DESIGN.md section 9)")
      for p in props if p['id'] not in CLAIMS]
m = dict(version=1, setup_cmd="./setup.sh",
         hooks=dict(guard="FAST_TICC_VERIF", enable="no source hooks: contracts are sidecar files under /verif/contracts; run-time wrappers are substituted from /verif/native",
                    baseline_off_cmd=BASELINE, source_commits=[], add_only=True),
         engines=[dict(name="pyvc", path="/verif/pyvc", serves_properties=sorted(CLAIMS),
                       kind_free_text="home-made deductive verifier: Python ast -> symbolic execution -> z3/cvc5 obligations; sidecar contracts; native run-time contract replay")],
         checks=checks, not_applicable=na,
         notes="exit codes: 0 held, 1 VIOLATION, 2 UNDECIDED (never a violation), 3 checker crash")
json.dump(m, open('/verif/MANIFEST.json', 'w'), indent=1)
