import sys, time
sys.path.insert(0, '/verif')
from pyvc import spec as S
from pyvc.repo import Repo
from pyvc.engine import Engine
from pyvc.verify import verify_function
from pyvc.solve import to_smt2
import contracts, z3
contracts.load_all()
q, pat = sys.argv[1], sys.argv[2]
eng = Engine(Repo())
r = verify_function(eng, q)
for ob in r['obligations']:
    if pat in ob.name:
        smt = to_smt2(ob)
        open('/tmp/dbg.smt2','w').write(smt)
        print(ob.name, len(smt))
        if len(sys.argv) > 3: print(smt)
        for opts in [{}, {'smt.mbqi': False}, {'smt.mbqi': False, 'smt.arith.nl': False}]:
            s = z3.Solver()
            s.set('timeout', 10000)
            for k, v in opts.items(): s.set(k, v)
            s.from_string(smt)
            t0 = time.time(); res = s.check()
            print(opts, res, '%.2f' % (time.time()-t0))
        break
