#!/bin/bash
# usage: seedtest.sh <patch.diff> <PROP> [PROP...]   -- applies the patch to /repo, runs the checks, reverts
P=$1; shift
cd /repo || exit 3
git diff --quiet || { echo "repo not clean"; exit 3; }
git apply "$P" || { echo "patch does not apply"; exit 3; }
cd /verif
export PYVC_EVIDENCE_DIR=/tmp/pyvc_evidence   # runs on a patched tree must not overwrite the evidence of the real tree
for p in "$@"; do
  s=$(date +%s); out=$(./check $p 2>&1); rc=$?; e=$(date +%s)
  echo "== $p rc=$rc $((e-s))s"
  echo "$out" | grep -E '^(OK|VIOLATION|UNDECIDED|CHECKER|KNOWN|  obligation)' | head -8 | cut -c1-260
done
git -C /repo checkout -- .
git -C /repo status --short | head -3
