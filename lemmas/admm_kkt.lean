import Mathlib

/-- ADMM step equations imply the approximate-KKT identity (any real module).
 x-step:  rho X - X⁻¹ = rho (Z_old - U_old) - S
 z-step:  G = rho (X + U_old - Z)   with G a subgradient of the penalty at Z (restricted to the Toeplitz subspace)
 u-step:  U = U_old + X - Z
 then the stationarity residual of (X, Z) is S - X⁻¹ + G = -rho (Z - Z_old), and G = rho U. -/
theorem admm_kkt {M : Type*} [AddCommGroup M] [Module ℝ M] (ρ : ℝ) (S X Xinv Z Zold U Uold G : M)
    (hx : ρ • X - Xinv = ρ • (Zold - Uold) - S)
    (hz : G = ρ • (X + Uold - Z))
    (hu : U = Uold + X - Z) :
    S - Xinv + G = -(ρ • (Z - Zold)) ∧ G = ρ • U := by
  constructor
  · have h : Xinv = ρ • X - (ρ • (Zold - Uold) - S) := by
      rw [← hx]; abel
    rw [h, hz]
    simp only [smul_sub, smul_add]
    abel
  · rw [hz, hu]; congr 1; abel
