"""Induction proofs of the lemma instances that models.py assumes about psum / rsum / cnt, and of the
division-free form of tri_rank.  Each lemma is stated for arbitrary array constants; base and step are
separate queries; induction on the naturals is the trusted rule."""
import z3
from pyvc import spec as S

I, R = z3.IntSort(), z3.RealSort()


def _sum_fn(name, elem):
    return z3.Function(name, z3.ArraySort(I, elem), I, elem)


def build_sums():
    out = []
    for nm, elem in (('psum', I), ('rsum', R)):
        f = _sum_fn(nm, elem)
        a, b = z3.Const('a', z3.ArraySort(I, elem)), z3.Const('b', z3.ArraySort(I, elem))
        n, m, m1, s = z3.Ints('n m m1 s')
        unfold = lambda arr, k: f(arr, k + 1) == f(arr, k) + z3.Select(arr, k)      # defining equation at k >= 0
        zero = lambda arr: f(arr, 0) == 0
        # prefix-extensionality: arrays equal on [0,n) have equal prefix sums up to n
        same = z3.ForAll([s], z3.Implies(z3.And(0 <= s, s < n), z3.Select(a, s) == z3.Select(b, s)))
        out.append(('%s-ext:base' % nm, [zero(a), zero(b)], f(a, 0) == f(b, 0)))
        out.append(('%s-ext:step' % nm, [same, 0 <= m, m < n, unfold(a, m), unfold(b, m), f(a, m) == f(b, m)],
                    f(a, m + 1) == f(b, m + 1)))
        # lower bound: a[s] >= c on [0,n)  ==>  sum(a, m) - sum(a, m1) >= c*(m - m1)   (induction on m, fixed m1)
        for c in (0, 1):
            ge = z3.ForAll([s], z3.Implies(z3.And(0 <= s, s < n), z3.Select(a, s) >= c))
            out.append(('%s-lower-%d:base' % (nm, c), [ge, 0 <= m1], f(a, m1) - f(a, m1) >= c * (m1 - m1)))
            out.append(('%s-lower-%d:step' % (nm, c), [ge, 0 <= m1, m1 <= m, m < n, unfold(a, m),
                                                       f(a, m) - f(a, m1) >= c * (m - m1)],
                        f(a, m + 1) - f(a, m1) >= c * (m + 1 - m1)))
    # rsum of a constant array is n times the constant
    f = _sum_fn('rsum', R)
    a = z3.Const('a', z3.ArraySort(I, R))
    n, m, s = z3.Ints('n m s')
    const = z3.ForAll([s], z3.Implies(z3.And(0 <= s, s < n), z3.Select(a, s) == z3.Select(a, 0)))
    out.append(('rsum-const:base', [f(a, 0) == 0], f(a, 0) == z3.RealVal(0) * z3.Select(a, 0)))
    out.append(('rsum-const:step', [const, 0 <= m, m < n, f(a, m + 1) == f(a, m) + z3.Select(a, m),
                                    f(a, m) == z3.ToReal(m) * z3.Select(a, 0)],
                f(a, m + 1) == z3.ToReal(m + 1) * z3.Select(a, 0)))
    # cnt is non-negative
    g = z3.Function('cnt', z3.ArraySort(I, I), I, I, I)
    la = z3.Const('la', z3.ArraySort(I, I))
    k = z3.Int('k')
    out.append(('cnt-nonneg:base', [g(la, k, 0) == 0], g(la, k, 0) >= 0))
    out.append(('cnt-nonneg:step', [0 <= m, g(la, k, m + 1) == g(la, k, m) + z3.If(z3.Select(la, m) == k, 1, 0), g(la, k, m) >= 0],
                g(la, k, m + 1) >= 0))
    return out


def build_tri_rank():
    """division-free form of tri_rank, from its definition r*n - (r*(r+1))//2 + c  (r*(r+1) is even)"""
    r, c, n, q = z3.Ints('r c n q')
    t = r * n - (r * (r + 1)) / 2 + c
    # r(r+1) is even: by cases r = 2q (then r(r+1) = 2*q(2q+1)) and r = 2q+1 (then r(r+1) = 2*(2q+1)(q+1))
    p = z3.Int('p')
    out = [('tri_rank-doubled:even-case', [r == 2 * q, p == q * (2 * q + 1), r * (r + 1) == 2 * p], 2 * t == 2 * r * n - r * (r + 1) + 2 * c),
           ('tri_rank-doubled:even-case-identity', [r == 2 * q, p == q * (2 * q + 1)], r * (r + 1) == 2 * p),
           ('tri_rank-doubled:odd-case', [r == 2 * q + 1, p == (2 * q + 1) * (q + 1), r * (r + 1) == 2 * p], 2 * t == 2 * r * n - r * (r + 1) + 2 * c),
           ('tri_rank-doubled:odd-case-identity', [r == 2 * q + 1, p == (2 * q + 1) * (q + 1)], r * (r + 1) == 2 * p),
           ('tri_rank-doubled:cases-exhaustive', [], z3.Exists([q], z3.Or(r == 2 * q, r == 2 * q + 1)))]
    # row-major successor characterisation => tri_rank is the rank in the upper triangle (bijection onto [0, n(n+1)/2))
    T = lambda rr, cc: 2 * rr * n - rr * (rr + 1) + 2 * cc       # 2 * tri_rank
    out.append(('tri_rank-first', [n >= 1], T(0, 0) == 0))
    out.append(('tri_rank-next-in-row', [0 <= r, r <= c, c + 1 < n], T(r, c + 1) == T(r, c) + 2))
    out.append(('tri_rank-next-row', [0 <= r, r + 1 < n], T(r + 1, r + 1) == T(r, n - 1) + 2))
    out.append(('tri_rank-last', [n >= 1], T(n - 1, n - 1) == n * (n + 1) - 2))
    r2, c2 = z3.Ints('r2 c2')
    out.append(('tri_rank-injective', [0 <= r, r <= c, c < n, 0 <= r2, r2 <= c2, c2 < n, T(r, c) == T(r2, c2)],
                z3.And(r == r2, c == c2)))
    return out


def build_partition():
    """C11: the position lists of the Toeplitz classes partition the upper triangle"""
    N, W, b, r, c, j, b2, r2, c2, j2, RR, CC = z3.Ints('N W b r c j b2 r2 c2 j2 RR CC')
    valid = z3.And(N > 0, W > 0, 0 <= b, b < W, 0 <= r, r < N, 0 <= c, c < N, 0 <= j, j < W - b)
    valid2 = z3.And(0 <= b2, b2 < W, 0 <= r2, r2 < N, 0 <= c2, c2 < N, 0 <= j2, j2 < W - b2)
    Rp, Cp = j * N + r, (b + j) * N + c
    Rq, Cq = j2 * N + r2, (b2 + j2) * N + c2
    out = [('class-positions-in-upper-triangle', [valid, z3.Or(b > 0, r <= c)], z3.And(0 <= Rp, Rp <= Cp, Cp < N * W)),
           ('class-positions-pairwise-distinct', [valid, valid2, Rp == Rq, Cp == Cq], z3.And(j == j2, r == r2, b == b2, c == c2)),
           ('every-upper-triangle-position-is-in-a-class',
            [N > 0, W > 0, 0 <= RR, RR <= CC, CC < N * W],
            z3.And(0 <= CC / N - RR / N, CC / N - RR / N < W, 0 <= RR / N, RR / N < W - (CC / N - RR / N),
                   0 <= RR % N, RR % N < N, 0 <= CC % N, CC % N < N, z3.Or(CC / N - RR / N > 0, RR % N <= CC % N),
                   (RR / N) * N + RR % N == RR, ((CC / N - RR / N) + RR / N) * N + CC % N == CC))]
    return out


def build_cnt_updates():
    """cnt under a single-position update and under pointwise equality (used for the size accounting of C08)."""
    A = z3.ArraySort(I, I)
    g = z3.Function('cnt', A, I, I, I)
    a, b = z3.Const('a', A), z3.Const('b', A)
    k, m, n, p, v, s = z3.Ints('k m n p v s')
    unfold = lambda arr, j: g(arr, k, j + 1) == g(arr, k, j) + z3.If(z3.Select(arr, j) == k, 1, 0)
    delta = z3.If(v == k, 1, 0) - z3.If(z3.Select(a, p) == k, 1, 0)
    stmt = lambda j: g(b, k, j) == g(a, k, j) + z3.If(j > p, delta, 0)
    upd = [b == z3.Store(a, p, v), p >= 0]
    out = [('cnt-store:base', upd + [g(a, k, 0) == 0, g(b, k, 0) == 0], stmt(z3.IntVal(0))),
           ('cnt-store:step', upd + [m >= 0, unfold(a, m), unfold(b, m), stmt(m)], stmt(m + 1))]
    same = z3.ForAll([s], z3.Implies(z3.And(0 <= s, s < n), z3.Select(a, s) == z3.Select(b, s)))
    out.append(('cnt-ext:base', [g(a, k, 0) == 0, g(b, k, 0) == 0], g(a, k, 0) == g(b, k, 0)))
    out.append(('cnt-ext:step', [same, 0 <= m, m < n, unfold(a, m), unfold(b, m), g(a, k, m) == g(b, k, m)], g(a, k, m + 1) == g(b, k, m + 1)))
    # cnt(a, k, n) <= n  (a cluster cannot own more points than there are)
    out.append(('cnt-upper:base', [g(a, k, 0) == 0], g(a, k, 0) <= 0))
    out.append(('cnt-upper:step', [m >= 0, unfold(a, m), g(a, k, m) <= m], g(a, k, m + 1) <= m + 1))
    return out


S.lemma('cnt-updates', ['C08'], build_cnt_updates)
S.lemma('sums', ['C07', 'C04', 'C10', 'C02', 'C18', 'C13', 'C06', 'C16'], build_sums)
S.lemma('tri-rank', ['C11', 'C02'], build_tri_rank)
S.lemma('toeplitz-partition', ['C11', 'C02'], build_partition)
