"""Code-independent lemmas (loaded only under python3-vt: they build z3 terms)."""
import importlib
MODULES = ['l_viterbi', 'l_sums']
def load_all():
    for m in MODULES:
        importlib.import_module('lemmas.' + m)
