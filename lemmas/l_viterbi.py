"""C01: the Bellman facts established by the kernel's postcondition imply global optimality.

total(q) := C[0,q0] + suf_q(0),  suf_q(T-1) = 0,  suf_q(j) = step(j, q_j, q_{j+1}) + suf_q(j+1)
  L1  suf_path(j) == F[j, path_j]            (downward induction; uses bellman-attained + path-follows-table)
  L2  suf_s(j)    >= F[j, s_j]  for every in-range sequence s   (uses bellman-lower-bound)
  E2  reported cost == total(path)
  E3  total(path) <= total(s) for every in-range sequence s     (the minimum over all K^T sequences)
"""
import z3
from pyvc import spec as S
from pyvc.lemmas import contract_facts

Q = 'fast_ticc.cluster_label_assignment.assign_point_cluster_labels'


def build(variant):
    def builder():
        eng, st, env, pre, post = contract_facts(Q + variant)
        C, F, P, B = env['label_assignment_cost'], env['F'], env['P'], env['B']
        path, cost = env['result'].py
        Cd, Fd, Pd, Bd = [eng.arr_data(st, v) for v in (C, F, P, B)]
        pa = eng.list_arr(st, path)
        T, K = eng.arr_shape(st, C)
        base = list(st.pc) + pre + [post[k] for k in ('labels-length', 'labels-in-range', 'table-shapes',
                                                     'bellman-last-row', 'bellman-attained', 'bellman-lower-bound',
                                                     'first-label-minimises', 'path-follows-table',
                                                     'cost-is-table-entry')]
        s = z3.Function('s', z3.IntSort(), z3.IntSort())
        sufp = z3.Function('suf_path', z3.IntSort(), z3.RealSort())
        sufs = z3.Function('suf_s', z3.IntSort(), z3.RealSort())
        j = z3.Int('j')
        t = z3.Int('t')
        pth = lambda x: z3.Select(pa, x)
        step = lambda jj, c, c2: z3.Select(Cd, jj + 1, c2) + z3.If(c == c2, z3.RealVal(0), z3.Select(Bd, jj))
        s_ok = z3.ForAll([t], z3.Implies(z3.And(0 <= t, t < T), z3.And(0 <= s(t), s(t) < K)), patterns=[s(t)])

        def suf_def(suf, seq, jj):          # instance of the recursive definition at jj
            return z3.And(suf(T - 1) == 0,
                          z3.Implies(z3.And(0 <= jj, jj < T - 1), suf(jj) == step(jj, seq(jj), seq(jj + 1)) + suf(jj + 1)))
        inrange = z3.And(0 <= j, j <= T - 1)
        c1 = lambda jj: sufp(jj) == z3.Select(Fd, jj, pth(jj))
        c2 = lambda jj: sufs(jj) >= z3.Select(Fd, jj, s(jj))
        out = []
        out.append(('L1:base', base + [suf_def(sufp, pth, j), j == T - 1], c1(j)))
        out.append(('L1:step', base + [suf_def(sufp, pth, j), 0 <= j, j < T - 1, c1(j + 1)], c1(j)))
        out.append(('L2:base', base + [s_ok, suf_def(sufs, s, j), j == T - 1], c2(j)))
        out.append(('L2:step', base + [s_ok, suf_def(sufs, s, j), 0 <= j, j < T - 1, c2(j + 1)], c2(j)))
        all1 = z3.ForAll([t], z3.Implies(z3.And(0 <= t, t <= T - 1), c1(t)))
        all2 = z3.ForAll([t], z3.Implies(z3.And(0 <= t, t <= T - 1), c2(t)))
        total_p = z3.Select(Cd, 0, pth(0)) + sufp(0)
        total_s = z3.Select(Cd, 0, s(0)) + sufs(0)
        out.append(('E2:reported-cost-is-total-of-returned-path', base + [all1], cost.t == total_p))
        out.append(('E3:returned-path-minimises-total-over-all-sequences', base + [s_ok, all1, all2], total_p <= total_s))
        # vacuity: the hypotheses of E3 are satisfiable
        return out
    return builder


S.lemma('viterbi-optimality#scalar', ['C01'], build('#scalar'))
S.lemma('viterbi-optimality#vector', ['C01'], build('#vector'))
