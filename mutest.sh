#!/bin/bash
# usage: mutest.sh <relative file under src/fast_ticc> <sed expr> [contract names...]
set -e
D=$(mktemp -d /tmp/mut.XXXX)
cp -r /repo/src $D/src
f=$1; e=$2; shift 2
sed -i "$e" $D/src/fast_ticc/$f
diff -u /repo/src/fast_ticc/$f $D/src/fast_ticc/$f | grep '^[+-]' | grep -v '^+++\|^---' || echo "NO CHANGE"
PYVC_REPO_SRC=$D/src python3-vt vtest.py "$@" 2>&1 | grep -v '^WARNING' | tail -15
rm -rf $D
