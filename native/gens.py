"""Input generators for the run-time contract checks (one per function under contract).
Each takes a random.Random and returns the keyword arguments of one call.  Values are integer-valued
or dyadic floats wherever arithmetic is compared for equality, so that float rounding does not enter."""
import numpy as np

GENS = {}


def gen(q):
    def deco(f):
        GENS[q] = f
        return f
    return deco


def fl(rng, lo=-8, hi=8):
    """small dyadic float"""
    return rng.randint(lo * 4, hi * 4) / 4.0


def farr(rng, *shape):
    n = int(np.prod(shape)) if shape else 1
    return np.array([fl(rng) for _ in range(n)], dtype=np.float64).reshape(shape)


U = 'fast_ticc.admm.unique_values.'
M = 'fast_ticc.matrix_compression.'
D = 'fast_ticc.data_preparation.'


@gen(U + '_size_including_this_row')
def _(rng):
    n = rng.randint(1, 40)
    return dict(r=rng.randint(0, n - 1), uncompressed_size=n)


@gen(U + '_elements_in_row_after_target')
def _(rng):
    n = rng.randint(1, 40)
    return dict(c=rng.randint(0, n - 1), full_row_length=n)


@gen(U + '_compressed_index')
def _(rng):
    n = rng.randint(1, 30)
    return dict(row=rng.randint(0, n - 1), column=rng.randint(0, n - 1), uncompressed_size=n)


@gen(U + '_block_start_coordinates')
def _(rng):
    return dict(block_id=rng.randint(-1, 6), block_size=rng.randint(0, 5), window_size=rng.randint(0, 6))


def _class5(rng, valid=True):
    w = rng.randint(1, 6)
    n = rng.randint(1, 5)
    b = rng.randint(0, w - 1)
    r = rng.randint(0, n - 1)
    c = rng.randint(r if b == 0 else 0, n - 1)
    return dict(block_id=b, row_in_block=r, col_in_block=c, block_size=n, num_blocks=w)


@gen(U + '_unique_variable_locations')
def _(rng):
    d = _class5(rng)
    if rng.random() < 0.2:
        d['block_id'] = rng.randint(-1, d['num_blocks'] + 1)
    return d


GENS[U + 'locations_compressed'] = _class5
GENS[U + 'locations_index_slices'] = _class5


@gen(M + '_full_matrix_size')
def _(rng):
    n = rng.randint(0, 200)
    return dict(flattened_size=n * (n + 1) // 2)


@gen(M + '_upper_triangle_indices')
def _(rng):
    return dict(size=rng.randint(0, 12))


def sym(rng, n):
    a = farr(rng, n, n)
    return (a + a.T) / 2 * 2


@gen(M + 'compress_matrix')
def _(rng):
    n = rng.randint(0, 9)
    if rng.random() < 0.1:
        return dict(full_matrix=farr(rng, n, n + 1))
    return dict(full_matrix=sym(rng, n) if rng.random() < 0.7 else farr(rng, n, n))


@gen(M + '_uncompress_upper_triangle')
def _(rng):
    n = rng.randint(0, 9)
    return dict(compressed_tri=farr(rng, n * (n + 1) // 2))


@gen(M + '_upper_to_full')
def _(rng):
    n = rng.randint(0, 8)
    return dict(upper_tri=np.triu(farr(rng, n, n)) if rng.random() < 0.7 else farr(rng, n, n))


@gen(M + 'reinflate_matrix')
def _(rng):
    n = rng.randint(0, 9)
    return dict(compressed_utri=farr(rng, n * (n + 1) // 2))


@gen(D + 'stack_training_data')
def _(rng):
    w = rng.randint(1, 6)
    t = rng.randint(w, w + 8)
    return dict(data=_layout(rng, farr(rng, t, rng.randint(1, 4))), window_size=w)


def _layout(rng, a):
    """the same T x N values in one of the memory layouts a caller can hand over (the property is about values, for every
    series): C order, Fortran order, a column block / a column list of a wider table, a 1-D signal viewed as a column
    (stride 0 or 8 on the length-1 axis), reversed or strided rows, float32 / integer element types"""
    m = rng.randint(0, 9)
    t, n = a.shape
    if m == 0:
        return np.asfortranarray(a)
    if m == 1:
        wide = np.hstack([a + 1000.0, a, a - 1000.0])
        return wide[:, n:2 * n]
    if m == 2:
        wide = np.hstack([a + 1000.0, a])
        return wide[:, list(range(n, 2 * n))]
    if m == 3 and n == 1:
        return a[:, 0][:, None]
    if m == 4 and n == 1:
        return np.atleast_2d(a[:, 0].copy()).T
    if m == 5:
        return a[::-1][::-1]
    if m == 6:
        big = np.repeat(a, 2, axis=0)
        return big[::2]
    if m == 7:
        return np.round(a * 8).astype(rng.choice([np.int64, np.int32]))
    if m == 8:
        return a.astype(np.float32)
    if n == 1:
        return a[:, 0][:, None]
    return a


@gen(D + 'label_switching_cost_template')
def _(rng):
    return dict(stacked_series_lengths=[rng.randint(1, 6) for _ in range(rng.randint(1, 6))])


@gen(D + 'pad_missing_labels')
def _(rng):
    return dict(original_labels=[rng.randint(0, 4) for _ in range(rng.randint(0, 12))], window_size=rng.randint(1, 9))


@gen(D + 'split_joint_labels')
def _(rng):
    lens = [rng.randint(0, 6) for _ in range(rng.randint(0, 6))]
    return dict(joint_labels=[rng.randint(0, 4) for _ in range(sum(lens))], stacked_series_lengths=lens)

L = 'fast_ticc.cluster_label_assignment.'


def _cost_table(rng):
    t, k = rng.randint(1, 6), rng.randint(1, 4)
    mode = rng.random()
    if mode > 0.96:     # widths around the capacity of the narrow integer dtypes a back-pointer table could be given
        t, k = rng.randint(1, 3), rng.choice([127, 128, 129, 255, 256, 257, 300])
        return farr(rng, t, k)
    if mode < 0.15:     # integer-dtype table (the property quantifies over every table of costs; a float switching cost must
        # not be truncated into it) -- small entries, so that fractional switching costs decide
        return np.array([[rng.randint(0, 3) for _ in range(k)] for _ in range(max(t, 3))], dtype=rng.choice([np.int64, np.int32, np.float32]))
    if mode < 0.3:      # many ties
        return np.array([[float(rng.randint(0, 2)) for _ in range(k)] for _ in range(t)])
    if mode < 0.5:      # huge spread
        return np.array([[float(rng.choice([-1e6, 0, 1, 1e6, 3])) for _ in range(k)] for _ in range(t)])
    return farr(rng, t, k)


@gen(L + 'assign_point_cluster_labels#scalar')
def _(rng):
    return dict(label_assignment_cost=_cost_table(rng), label_switching_cost=float(rng.choice([0, 0, 0.5, 1, 2, 7, 100])))


@gen(L + 'assign_point_cluster_labels#vector')
def _(rng):
    c = _cost_table(rng)
    return dict(label_assignment_cost=c,
                label_switching_cost=np.array([float(rng.choice([0, 0.5, 1, 3, 10])) for _ in range(c.shape[0])]))

SV = 'fast_ticc.admm.solver.'


def _spd(rng, n, lo=0.25, hi=4.0):
    a = np.array([[rng.gauss(0, 1) for _ in range(n)] for _ in range(n)])
    q, _ = np.linalg.qr(a) if n > 0 else (a, None)
    d = np.array([rng.uniform(lo, hi) for _ in range(n)])
    m = (q * d) @ q.T
    return (m + m.T) / 2


@gen(SV + 'soft_threshold_prox')
def _(rng):
    return dict(scaled_point_sum=fl(rng), lambda_sum=abs(fl(rng, 0, 4)), rho_times_r=rng.choice([0.25, 0.5, 1.0, 2.0, 3.0]))


def _cls(rng):
    d = _class5(rng)
    return dict(block_id=d['block_id'], row=d['row_in_block'], column=d['col_in_block'], block_size=d['block_size'],
                num_blocks=d['num_blocks'])


@gen(SV + 'compute_lambda_sum#float')
def _(rng):
    return dict(lambda_parameter=abs(fl(rng, 0, 4)), **_cls(rng))


@gen(SV + 'compute_lambda_sum#int')
def _(rng):
    return dict(lambda_parameter=rng.randint(0, 3), **_cls(rng))


@gen(SV + 'compute_lambda_sum#array')
def _(rng):
    c = _cls(rng)
    n = c['block_size'] * c['num_blocks']
    lam = np.full((n, n), abs(fl(rng, 0, 4))) if rng.random() < 0.4 else np.abs(sym(rng, n))
    return dict(lambda_parameter=lam, **c)


@gen(SV + 'admm_update_u')
def _(rng):
    n = rng.randint(0, 10)
    return dict(u=farr(rng, n), x=farr(rng, n), z=farr(rng, n))


def _balance_rho(rho, residual_primal, tolerance_primal, residual_dual, tolerance_dual):
    """residual balancing (Boyd et al. 3.4.1): the usual adaptive-rho rule a caller would plug in"""
    if residual_primal > 10 * residual_dual:
        return 2 * rho
    if residual_dual > 10 * residual_primal:
        return rho / 2
    return rho


def _admm_args(rng, lam=None, nw=None):
    from fast_ticc.containers import arguments
    w, n = nw or (rng.randint(1, 3), rng.randint(1, 3))
    return arguments.ADMMArguments(window_size=w, num_data_series=n, rho=rng.choice([0.5, 1.0, 2.0]),
                                   rho_update=_balance_rho if rng.random() < 0.35 else None,
                                   sparsity_weight=abs(fl(rng, 0, 2)) if lam is None else lam,
                                   absolute_tolerance=1e-6, relative_tolerance=1e-6, max_iterations=rng.randint(0, 30),
                                   verbose=False)


@gen(SV + 'check_convergence')
def _(rng):
    a = _admm_args(rng)
    m = a.window_size * a.num_data_series
    k = m * (m + 1) // 2
    return dict(args=a, u=farr(rng, k), x=farr(rng, k), z=farr(rng, k), z_old=farr(rng, k))


@gen(SV + 'x_update_prox')
def _(rng):
    n = rng.randint(1, 5)
    return dict(empirical_covariance=_spd(rng, n, 0.0, 4.0), z_minus_u=sym(rng, n), rho=rng.choice([0.5, 1.0, 2.0]))


@gen(SV + 'admm_update_x')
def _(rng):
    a = _admm_args(rng)
    m = a.window_size * a.num_data_series
    k = m * (m + 1) // 2
    return dict(args=a, u=farr(rng, k), z=farr(rng, k), empirical_covariance=_spd(rng, m, 0.0, 4.0))


@gen(SV + 'admm_update_z#float')
def _(rng):
    a = _admm_args(rng)
    m = a.window_size * a.num_data_series
    k = m * (m + 1) // 2
    return dict(args=a, u=farr(rng, k), x=farr(rng, k))


@gen(SV + 'admm_update_z#array')
def _(rng):
    nw = (rng.randint(1, 3), rng.randint(1, 3))
    m = nw[0] * nw[1]
    a = _admm_args(rng, lam=np.abs(sym(rng, m)), nw=nw)
    k = m * (m + 1) // 2
    return dict(args=a, u=farr(rng, k), x=farr(rng, k))


@gen(SV + 'run_admm_optimization')
def _(rng):
    a = _admm_args(rng)
    m = a.window_size * a.num_data_series
    return dict(args=a, empirical_covariance=_spd(rng, m))


for _m in ('shallow_copy', 'deep_copy'):
    GENS['fast_ticc.containers.arguments.ADMMArguments.' + _m] = (lambda rng: dict(self=_admm_args(rng)))


@gen('fast_ticc.admm.front_end.admm_optimize_theta')
def _(rng):
    w, n = rng.randint(1, 3), rng.randint(1, 3)
    return dict(empirical_covariance=_spd(rng, w * n), sparsity_weight=abs(fl(rng, 0, 2)), window_size=w, num_data_series=n,
                rho=rng.choice([0.5, 1.0, 2.0]), rho_update=None, max_iterations=rng.randint(1, 40),
                absolute_tolerance=1e-6, relative_tolerance=1e-6, verbose=False)

MS = 'fast_ticc.containers.model_state.'
AR = 'fast_ticc.containers.arguments.'
CM = 'fast_ticc.cluster_maintenance.'


def _user_args(rng, k=3, m=None, lam=0.11, beta=5.0):
    from fast_ticc.containers import arguments
    return arguments.UserArguments(sparsity_weight=lam, iteration_limit=rng.randint(1, 4), label_switching_cost=beta,
                                   min_cluster_size=m if m is not None else rng.randint(1, 3),
                                   min_meaningful_covariance=0.0, num_clusters=k, num_processors=1,
                                   window_size=rng.randint(1, 3), biased_covariance=rng.random() < 0.5)


def _cluster(rng, nw=None, members=None):
    from fast_ticc.containers import model_state
    nw = nw or rng.randint(1, 4)
    return model_state.ClusterParameters(computed_covariance=_spd(rng, nw), empirical_covariance=_spd(rng, nw),
                                         graphical_lasso_cost=None, inverse_covariance=_spd(rng, nw), log_determinant=fl(rng),
                                         member_points=members if members is not None else sorted(rng.sample(range(20), rng.randint(0, 6))),
                                         stacked_data_mean=farr(rng, nw), train_inverse=_spd(rng, nw))


def _model(rng, sizes=None, k=None, m=None, nw=2, shuffle=True):
    """well-formed ModelState: labels assigned through the real setter"""
    from fast_ticc.containers import model_state
    if sizes is None:
        k = k or rng.randint(2, 4)
        sizes = [rng.randint(0, 7) for _ in range(k)]
    k = len(sizes)
    labels = [c for c, s in enumerate(sizes) for _ in range(s)]
    if shuffle:
        rng.shuffle(labels)
    if not labels:
        labels = [0]
    data = farr(rng, len(labels), nw)
    ms = model_state.ModelState.empty_model(_user_args(rng, k=k, m=m), data)
    for c in ms.clusters:
        c.computed_covariance = _spd(rng, nw) * rng.choice([0.5, 1, 2, 3])
        c.empirical_covariance = _spd(rng, nw)
        c.train_inverse = _spd(rng, nw)
        c.inverse_covariance = c.train_inverse
        c.stacked_data_mean = farr(rng, nw)
        c.log_determinant = 0.0
    ms.point_labels = labels
    ms.label_assignment_cost = 1.0
    return ms, data


@gen(MS + 'ClusterParameters.__init__')
def _(rng):
    from fast_ticc.containers import model_state
    c = _cluster(rng)
    mp = rng.choice([None, [], [3, 1, 2], [0, 4, 9]])
    return dict(self=model_state.ClusterParameters.__new__(model_state.ClusterParameters), computed_covariance=c.computed_covariance,
                empirical_covariance=None, graphical_lasso_cost=1.5, inverse_covariance=c.inverse_covariance,
                log_determinant=0.25, member_points=mp, stacked_data_mean=c.stacked_data_mean, train_inverse=c.train_inverse)


@gen(MS + 'ClusterParameters.member_points.setter')
def _(rng):
    return dict(self=_cluster(rng), new_members=rng.choice([None, [], [5, 2, 7], [1, 2, 3], [0]]))


for _name in ('size', 'shallow_copy', 'deep_copy'):
    GENS[MS + 'ClusterParameters.' + _name] = (lambda rng: dict(self=_cluster(rng)))


@gen(MS + 'ClusterParameters.empty_cluster')
def _(rng):
    return {}


@gen(MS + 'ModelState.empty_model')
def _(rng):
    return dict(user_args=_user_args(rng, k=rng.randint(0, 4)), stacked_training_data=farr(rng, 4, 2))


@gen(MS + 'ModelState._update_cluster_membership')
def _(rng):
    ms, _ = _model(rng)
    mode = rng.random()
    if mode < 0.2:
        ms._point_labels = None if rng.random() < 0.5 else []
    else:
        ms._point_labels = [rng.randint(0, len(ms.clusters) - 1) for _ in range(rng.randint(1, 12))]
    return dict(self=ms)


@gen(MS + 'ModelState.point_labels.setter')
def _(rng):
    ms, _ = _model(rng)
    if rng.random() < 0.3:
        new = list(ms._point_labels)
    else:
        new = [rng.randint(0, len(ms.clusters) - 1) for _ in range(rng.randint(1, 12))]
    return dict(self=ms, new_labels=new)


GENS[MS + 'ModelState.shallow_copy'] = lambda rng: dict(self=_model(rng)[0])
GENS[MS + 'ModelState.deep_copy'] = lambda rng: dict(self=_model(rng)[0])
GENS[AR + 'UserArguments.shallow_copy'] = lambda rng: dict(self=_user_args(rng))
GENS[AR + 'UserArguments.deep_copy'] = lambda rng: dict(self=_user_args(rng))
GENS[AR + 'UserArguments.deep_copy#arrays'] = lambda rng: dict(self=_user_args(rng, lam=np.eye(2) * 0.5, beta=np.ones(5)))
GENS[AR + 'UserArguments.shallow_copy#arrays'] = lambda rng: dict(self=_user_args(rng, lam=np.eye(2) * 0.5, beta=np.ones(5)))


@gen(CM + 'update_cluster_member_data_statistics')
def _(rng):
    data = farr(rng, 10, 2)
    return dict(cluster=_cluster(rng, 2, members=sorted(rng.sample(range(10), rng.randint(2, 6)))), training_data=data,
                use_biased_covariance=rng.random() < 0.5)


@gen(CM + 'update_all_cluster_statistics')
def _(rng):
    ms, data = _model(rng, sizes=[rng.randint(2, 5) for _ in range(rng.randint(2, 4))])
    return dict(model=ms, training_data=data)


@gen(CM + '_find_point_donor')
def _(rng):
    ms, _ = _model(rng)
    k = len(ms.clusters)
    ids = rng.sample(range(k), rng.randint(0, k))
    return dict(model=ms, potential_donor_ids=ids)


@gen(CM + '_find_ranked_donor_cluster_ids')
def _(rng):
    return dict(model=_model(rng)[0])


@gen(CM + '_move_random_points')
def _(rng):
    m = rng.randint(1, 2)
    ms, _ = _model(rng, sizes=[rng.randint(m, 3 * m + 2)] + [rng.randint(0, 3) for _ in range(rng.randint(1, 3))], m=m)
    return dict(model=ms, donor_cluster_id=0, recipient_cluster_id=rng.randint(1, len(ms.clusters) - 1))


@gen(CM + 'repopulate_empty_clusters')
def _(rng):
    m = rng.randint(1, 3)
    k = rng.randint(2, 5)
    ms, _ = _model(rng, sizes=[rng.randint(0, 3 * m + 2) for _ in range(k)], m=m)
    return dict(model=ms)

GL = 'fast_ticc.graphical_lasso.'
LK = 'fast_ticc.likelihood.'
CMx = 'fast_ticc.cluster_metrics.'
ML = 'fast_ticc.main_loop.'
FE = 'fast_ticc.front_end.'
Lb = 'fast_ticc.cluster_label_assignment.'


@gen(GL + '_zero_small_elements')
def _(rng):
    n = rng.randint(1, 5)
    return dict(array=farr(rng, n, n) * rng.choice([1.0, 0.25]), epsilon=rng.choice([0.0, 0.5, 1.0, 2.0]), copy=rng.random() < 0.5)


@gen(GL + '_reconstruct_optimized_matrix')
def _(rng):
    ms, _d = _model(rng)
    ms.arguments.min_meaningful_covariance = rng.choice([0.0, 0.0, 0.5, 1.0])
    n = rng.randint(1, 5)
    return dict(model=ms, compressed_result=farr(rng, n * (n + 1) // 2))


@gen(GL + '_update_cluster_covariances')
def _(rng):
    from fast_ticc import matrix_compression
    ms, _d = _model(rng)
    mode = rng.random()
    if mode < 0.25:
        n = rng.choice([60, 100, 120])
        theta = np.eye(n) * rng.choice([1e-4, 1e4, 1e-6])       # determinant far outside the range of a double
    else:
        n = rng.randint(1, 5)
        theta = _spd(rng, n)
    return dict(model=ms, cluster=_cluster(rng, 2), admm_result=matrix_compression.compress_matrix(theta))


@gen(LK + 'point_log_likelihood_fast')
def _(rng):
    w, n = rng.randint(1, 3), rng.randint(1, 3)
    nw = w * n
    th = _spd(rng, nw)
    return dict(point=farr(rng, nw), mu_i=farr(rng, nw), theta_i=th, log_det_theta=float(np.linalg.slogdet(th)[1]),
                window_size=w, num_data_series=n)


@gen(LK + 'point_log_likelihood')
def _(rng):
    w, n = rng.randint(1, 3), rng.randint(1, 3)
    c = _cluster(rng, w * n)
    c.log_determinant = float(np.linalg.slogdet(c.inverse_covariance)[1])
    return dict(point=farr(rng, w * n), cluster=c, window_size=w, num_data_series=n)


@gen(LK + 'all_points_all_clusters_log_likelihood_fast')
def _(rng):
    w, n, k, t = rng.randint(1, 3), rng.randint(1, 2), rng.randint(1, 3), rng.randint(1, 6)
    nw = w * n
    thetas = np.array([_spd(rng, nw) for _ in range(k)])
    return dict(window_size=w, num_clusters=k, mus=np.array([farr(rng, nw) for _ in range(k)]), thetas=thetas,
                log_det_thetas=np.array([np.linalg.slogdet(x)[1] for x in thetas]), stacked_training_data=farr(rng, t, nw))


def _fitted_model(rng, big=False):
    """well-formed model with per-cluster statistics and SPD precisions of the right size"""
    w = rng.randint(1, 2)
    n = rng.randint(1, 2)
    nw = w * n
    ms, data = _model(rng, sizes=[rng.randint(1, 5) for _ in range(rng.randint(2, 3))], nw=nw)
    ms.arguments.window_size = w
    for c in ms.clusters:
        c.train_inverse = _spd(rng, nw) * (rng.choice([1e-80, 1e80]) if big else 1.0)
        c.inverse_covariance = c.train_inverse
        c.log_determinant = float(np.linalg.slogdet(c.train_inverse)[1])
        c.stacked_data_mean = data[c.member_points].mean(axis=0) if c.member_points else farr(rng, nw)
        c.empirical_covariance = _spd(rng, nw)
        c.computed_covariance = np.linalg.inv(c.train_inverse)
    return ms, data


@gen(LK + 'all_points_all_clusters_log_likelihood')
def _(rng):
    ms, data = _fitted_model(rng, big=rng.random() < 0.2)
    return dict(model=ms, stacked_training_data=data)


@gen(CMx + 'bayesian_information_criterion')
def _(rng):
    return dict(model=_fitted_model(rng, big=rng.random() < 0.2)[0])


@gen(CMx + 'calinski_harabasz_index')
def _(rng):
    ms, data = _fitted_model(rng)
    if rng.random() < 0.08:     # a long series: clusters with thousands of members (block-wise accumulation, index widths)
        ms, data = _model(rng, sizes=[rng.choice([1030, 2050, 2600, 4100]), rng.randint(1, 40), rng.choice([5, 1500])], nw=2)
    data = data + np.arange(data.shape[1]) * rng.choice([0.0, 4.0, 10.0])      # sensors with different offsets
    for c in ms.clusters:
        c.stacked_data_mean = data[c.member_points].mean(axis=0)
    return dict(stacked_training_data=data, model=ms)


@gen(ML + '_compute_log_likelihood_by_cluster')
def _(rng):
    ms, data = _fitted_model(rng)
    if rng.random() < 0.4:      # a run that ends with a cluster owning no point
        from fast_ticc.containers import model_state
        extra = model_state.ClusterParameters.empty_cluster()
        src = ms.clusters[0]
        extra.stacked_data_mean, extra.inverse_covariance, extra.log_determinant, extra.train_inverse = \
            src.stacked_data_mean, src.inverse_covariance, src.log_determinant, src.train_inverse
        ms.clusters.append(extra)
        ms.arguments.num_clusters += 1
    return dict(stacked_training_data=data, model=ms)


@gen(Lb + 'predict_cluster_labels')
def _(rng):
    ms, data = _fitted_model(rng)
    ms.arguments.label_switching_cost = float(rng.choice([0, 1, 5]))
    return dict(model=ms, test_data=data)


@gen(FE + '_split_combined_result')
def _(rng):
    from fast_ticc.containers import results
    w = rng.randint(1, 5)
    sizes = [rng.randint(0, 5) for _ in range(rng.randint(1, 4))]
    labels = [rng.randint(0, 2) for _ in range(sum(sizes))]
    master = results.SingleDataSeriesResult(bayesian_information_criterion=1.0, calinski_harabasz_index=2.0, label_assignment_cost=3.0,
                                            overall_log_likelihood=4.0, overall_log_likelihood_mean=5.0, overall_log_likelihood_median=6.0,
                                            cluster_log_likelihood_mean=np.zeros(3), cluster_log_likelihood_median=np.zeros(3),
                                            all_log_likelihood=[0.0], markov_random_fields=[np.eye(2)], num_clusters=3,
                                            point_labels=labels, window_size=w)
    return dict(master_result=master, stacked_data_sizes=sizes, data_series=[farr(rng, s + w - 1, 2) for s in sizes])


@gen('fast_ticc.data_preparation.stack_training_data_multiple_series')
def _(rng):
    w = rng.randint(1, 4)
    n = rng.randint(1, 3)
    k = rng.randint(1, 4)
    if rng.random() < 0.3:      # all series of one length (a batch of equal-length recordings)
        t = rng.randint(w, w + 5)
        return dict(all_series=[farr(rng, t, n) for _ in range(k)], window_size=w)
    return dict(all_series=[farr(rng, rng.randint(w, w + 5), n) for _ in range(k)], window_size=w)
