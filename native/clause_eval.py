"""Native evaluation of contract clauses (runs under /venv/bin/python against the real code).

The clause text is the same text the symbolic engine compiles into obligations.  Differences of the
native reading, all stated here:
  * float comparisons (== != < <= > >=) use a relative tolerance REL (machine arithmetic vs. reals);
  * implies/ite/and/or are lazily evaluated (AST rewrite), quantifiers range over finite int ranges;
    unbounded `forall(lambda i, j: implies(range-guard, body))` is evaluated over the index range
    [-1, BOUND] inferred from the largest dimension/length of the arguments;
  * old(e) is evaluated on a deep copy of the arguments taken before the call;
  * fresh(x): x is not (by identity) any object reachable from the arguments before the call.
Clauses that use vocabulary with no native meaning raise NotNative and are counted as skipped."""
import ast
import copy
import math

import numpy as np

REL = 1e-7
ABS = 1e-9


class NotNative(Exception):
    pass


def _isnum(x):
    return isinstance(x, (int, float, np.integer, np.floating, bool, np.bool_))


def _cmp(op, a, b):
    if _isnum(a) and _isnum(b) and (isinstance(a, (float, np.floating)) or isinstance(b, (float, np.floating))):
        a, b = float(a), float(b)
        if math.isnan(a) or math.isnan(b):
            return False if op != '!=' else True
        if math.isinf(a) or math.isinf(b):
            close = a == b
        else:
            close = abs(a - b) <= ABS + REL * max(abs(a), abs(b))
        if op == '==':
            return close
        if op == '!=':
            return not close
        if op == '<':
            return a < b and not close
        if op == '<=':
            return a <= b or close
        if op == '>':
            return a > b and not close
        if op == '>=':
            return a >= b or close
    if op == '==':
        r = a == b
    elif op == '!=':
        r = a != b
    elif op == '<':
        r = a < b
    elif op == '<=':
        r = a <= b
    elif op == '>':
        r = a > b
    elif op == '>=':
        r = a >= b
    elif op == 'is':
        r = a is b
    elif op == 'is not':
        r = a is not b
    elif op == 'in':
        r = a in b
    elif op == 'not in':
        r = a not in b
    else:
        raise NotNative(op)
    if isinstance(r, np.ndarray):
        return bool(r.all())
    return bool(r)


_OPS = {ast.Eq: '==', ast.NotEq: '!=', ast.Lt: '<', ast.LtE: '<=', ast.Gt: '>', ast.GtE: '>=',
        ast.Is: 'is', ast.IsNot: 'is not', ast.In: 'in', ast.NotIn: 'not in'}


class Rewriter(ast.NodeTransformer):
    """implies(a,b) -> ((not a) or b); ite(c,a,b) -> (a if c else b); comparisons -> _cmp;
    old(e) -> e with parameter names redirected to the pre-state snapshot."""

    def __init__(self, params):
        self.params = set(params)
        self.in_old = 0

    def visit_Call(self, node):
        if isinstance(node.func, ast.Name):
            n = node.func.id
            if n == 'implies':
                a, b = self.visit(node.args[0]), self.visit(node.args[1])
                return ast.BoolOp(op=ast.Or(), values=[ast.UnaryOp(op=ast.Not(), operand=a), b])
            if n == 'ite':
                c, a, b = [self.visit(x) for x in node.args]
                return ast.IfExp(test=c, body=a, orelse=b)
            if n == 'old':
                self.in_old += 1
                try:
                    e = self.visit(node.args[0])
                finally:
                    self.in_old -= 1
                return e
            if n == 'unchanged':
                args = []
                for a in node.args:
                    cur = self.visit(copy.deepcopy(a))
                    args.append(ast.Call(func=ast.Name(id='_unchanged', ctx=ast.Load()), args=[cur], keywords=[]))
                return ast.BoolOp(op=ast.And(), values=args + [ast.Constant(value=True)])
        return self.generic_visit(node)

    def visit_Name(self, node):
        if self.in_old and node.id in self.params and isinstance(node.ctx, ast.Load):
            return ast.Subscript(value=ast.Name(id='_OLD', ctx=ast.Load()),
                                 slice=ast.Constant(value=node.id), ctx=ast.Load())
        return node

    def visit_Compare(self, node):
        node = self.generic_visit(node)
        parts = []
        left = node.left
        for op, right in zip(node.ops, node.comparators):
            parts.append(ast.Call(func=ast.Name(id='_cmp', ctx=ast.Load()),
                                  args=[ast.Constant(value=_OPS[type(op)]), left, right], keywords=[]))
            left = right
        if len(parts) == 1:
            return parts[0]
        return ast.BoolOp(op=ast.And(), values=parts)

    def visit_Lambda(self, node):
        # lambda parameters shadow function parameters
        names = {a.arg for a in node.args.args}
        saved = self.params
        self.params = self.params - names
        try:
            node.body = self.visit(node.body)
        finally:
            self.params = saved
        return node


def _same_content(a, b):
    if isinstance(a, np.ndarray) or isinstance(b, np.ndarray):
        a, b = np.asarray(a), np.asarray(b)
        return a.shape == b.shape and bool(np.array_equal(a, b, equal_nan=True))
    if isinstance(a, (list, tuple)):
        return len(a) == len(b) and all(_same_content(x, y) for x, y in zip(a, b))
    if hasattr(a, '__dict__') and not callable(a):
        return all(_same_content(v, getattr(b, k, None)) for k, v in vars(a).items())
    try:
        return bool(a == b)
    except Exception:
        return a is b


def signature(o):
    """shallow content of an object: scalars by value, references by identity"""
    def atom(x):
        if x is None or isinstance(x, (int, float, str, bool, np.integer, np.floating)):
            return ('v', x if not isinstance(x, float) or x == x else 'nan')
        return ('id', id(x))
    if isinstance(o, np.ndarray):
        return ('nd', o.shape, o.tobytes())
    if isinstance(o, (list, tuple)):
        return ('seq', tuple(atom(x) for x in o))
    if isinstance(o, (set, frozenset)):
        return ('set', tuple(sorted(o)))
    if isinstance(o, dict):
        return ('dict', tuple((k, atom(v)) for k, v in o.items()))
    if hasattr(o, '__dict__'):
        return ('obj', tuple((k, atom(v)) for k, v in sorted(vars(o).items())))
    return ('other', repr(o))


def snapshot(objs):
    """id -> shallow signature of every object reachable from objs (taken before the call)"""
    snap = {}
    stack = list(objs)
    keep = []
    while stack:
        o = stack.pop()
        if o is None or isinstance(o, (int, float, str, bool)) or id(o) in snap:
            continue
        snap[id(o)] = signature(o)
        keep.append(o)
        if isinstance(o, (list, tuple)):
            stack.extend(o)
        elif isinstance(o, dict):
            stack.extend(o.values())
        elif isinstance(o, np.ndarray):
            pass
        elif hasattr(o, '__dict__'):
            stack.extend(vars(o).values())
    snap['__keep__'] = keep
    return snap


def reachable_ids(objs):
    seen = set()
    stack = list(objs)
    while stack:
        o = stack.pop()
        if id(o) in seen or o is None or isinstance(o, (int, float, str, bool)):
            continue
        seen.add(id(o))
        if isinstance(o, (list, tuple)):
            stack.extend(o)
        elif isinstance(o, dict):
            stack.extend(o.values())
        elif isinstance(o, np.ndarray):
            if o.base is not None:
                stack.append(o.base)
        elif hasattr(o, '__dict__'):
            stack.extend(vars(o).values())
    return seen


class Evaluator:
    def __init__(self, specfns, bound=8):
        self.specfns = specfns
        self.bound = bound
        self.cache = {}

    def namespace(self, args, old, result, pre_ids, extra=None, snap=None, back=None):
        bound = [self.bound]
        snap = snap or {}
        back = back or {}

        def canon(x):
            return back.get(id(x), x)

        def _unchanged(x):
            if x is None:
                return True
            sig = snap.get(id(x))
            return sig is None or sig == signature(x)

        def rng(lo, hi):
            return range(int(lo), int(hi))

        def forall(*a):
            f = a[-1]
            n = f.__code__.co_argcount
            if len(a) == 3:
                dom = rng(a[0], a[1])
                if n == 1:
                    return all(f(i) for i in dom)
                import itertools
                return all(f(*t) for t in itertools.product(dom, repeat=n))
            import itertools
            dom = range(-1, bound[0] + 1)
            return all(_safe(f, t) for t in itertools.product(dom, repeat=n))

        def exists(*a):
            f = a[-1]
            n = f.__code__.co_argcount
            import itertools
            dom = rng(a[0], a[1]) if len(a) == 3 else range(-1, bound[0] + 1)
            return any(_safe(f, t, False) for t in itertools.product(dom, repeat=n))

        def _safe(f, t, default=True):
            try:
                return f(*t)
            except (IndexError, KeyError, ZeroDivisionError):
                # unbounded quantifier instantiated outside the guarded range before the guard is read
                return default

        def fresh(x):
            return id(x) not in pre_ids

        def same(a, b):
            return canon(a) is canon(b)

        def allocated(x):
            return x is not None

        def isnone(x):
            return x is None

        def psum(xs, n):
            return sum(xs[:int(n)]) if n > 0 else 0

        def cnt(xs, k, p):
            return sum(1 for q in range(int(p)) if xs[q] == k)

        def in_set(x, s_):
            return x in s_

        def sizes(labels, K):
            return [sum(1 for l in labels if l == k) for k in range(K)]

        def eqcontent(a, b):
            return _same_content(a, b)

        def let(v, f):
            return f(v)

        ns = dict(cnt=cnt, in_set=in_set, sizes=sizes, forall=forall, exists=exists, fresh=fresh, same=same, allocated=allocated, _unchanged=_unchanged, isnone=isnone, psum=psum,
                  eqcontent=eqcontent, let=let, real=float, _cmp=_cmp, _same_content=_same_content,
                  _OLD=old, len=len, abs=abs, min=min, max=max, int=int, float=float, np=np, math=math,
                  result=result)
        ns.update(extra or {})
        for name, fn in self.specfns.items():
            if fn.native is not None:
                ns[name] = eval(fn.native, ns) if isinstance(fn.native, str) else fn.native
            elif fn.src is not None:
                ns[name] = self._compile_fn(fn.src, ns)
        ns.update(args)
        # quantifier bound from the data
        m = 4
        for v in list(args.values()) + [result]:
            if isinstance(v, np.ndarray):
                m = max([m] + list(v.shape))
            elif isinstance(v, (list, tuple)):
                m = max(m, len(v))
            elif isinstance(v, (int, np.integer)) and 0 <= v < 40:
                m = max(m, int(v))
        bound[0] = min(m, 24)
        return ns

    def _compile_fn(self, src, ns):
        tree = ast.parse(src.strip(), mode='eval')
        tree = ast.fix_missing_locations(Rewriter([]).visit(tree))
        return eval(compile(tree, '<specfn>', 'eval'), ns)

    def compile(self, clause, params):
        key = (clause, tuple(params))
        if key not in self.cache:
            tree = ast.parse(clause.strip(), mode='eval')
            tree = ast.fix_missing_locations(Rewriter(params).visit(tree))
            self.cache[key] = compile(tree, '<clause>', 'eval')
        return self.cache[key]

    def holds(self, clause, ns, params):
        """-> True / False ; raises NotNative when the clause has no native reading"""
        code = self.compile(clause, params)
        try:
            r = eval(code, ns)
        except NameError as e:
            raise NotNative(str(e))
        except AttributeError as e:
            raise NotNative(str(e))
        if isinstance(r, np.ndarray):
            r = r.all()
        return bool(r)
