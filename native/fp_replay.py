"""Runs under /venv/bin/python: replays binary64 inputs (a solver model, or a sweep over magnitudes) on the REAL function.
usage: fp_replay.py <json>   json = {qualname, native_args, native_ok, ranges:{name:[lo,hi]}, point:{name:value}|null}
prints a JSON dict: {status: ok|fail|error, input:{..}, result:[..]}; exit 1 on fail"""
import importlib
import itertools
import json
import math
import sys

import numpy as np


def main():
    spec = json.loads(sys.argv[1])
    mod, fn = spec['qualname'].rsplit('.', 1)
    f = getattr(importlib.import_module(mod), fn)
    f = getattr(f, 'py_func', f)
    mk = eval(spec['native_args'], {'np': np})
    ok = eval(spec['native_ok'], {'np': np})
    if spec.get('compare'):
        # cross-check of the extraction: z3's value of the extracted term against the real function, bit for bit
        import struct
        n = 0
        with np.errstate(all='ignore'):
            for c in spec['compare']:
                n += 1
                r = np.asarray(f(*mk(**c['point'])), dtype=np.float64).ravel()
                got = struct.unpack('<Q', struct.pack('<d', float(r[0])))[0]
                if len(r) != 1 or (got != c['bits'] and not (math.isnan(r[0]) and math.isnan(c['value']))):
                    print(json.dumps(dict(status='fail', input=c['point'], result=r.tolist(), expected=c['value'], cases=n)))
                    return 1
        print(json.dumps(dict(status='ok', cases=n)))
        return 0
    names = sorted(spec['ranges'])
    if spec.get('point'):
        points = [tuple(float(spec['point'][n]) for n in names)]
    else:
        grids = []
        for n in names:
            lo, hi = spec['ranges'][n]
            g = set()
            for k in range(-100, 101, 4):
                for s in (1.0, -1.0, 3.7, -3.7):
                    v = s * 10.0 ** k
                    if lo <= v <= hi:
                        g.add(v)
            if lo <= 0.0 <= hi:
                g.add(0.0)
            g.update((lo, hi))
            grids.append(sorted(g))
        points = itertools.product(*grids)
    n = 0
    with np.errstate(all='ignore'):
        for p in points:
            n += 1
            kw = dict(zip(names, p))
            try:
                r = f(*mk(**kw))
                good = ok(r)
            except Exception as e:       # noqa
                print(json.dumps(dict(status='fail', input=kw, result='%s: %s' % (type(e).__name__, e), cases=n)))
                return 1
            if not good:
                print(json.dumps(dict(status='fail', input=kw, result=np.asarray(r).tolist(), cases=n)))
                return 1
    print(json.dumps(dict(status='ok', cases=n)))
    return 0


if __name__ == '__main__':
    sys.exit(main())
