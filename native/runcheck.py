"""Run-time contract checking of the REAL functions (bounded stand-in + counterexample finder + replay).
Runs under /venv/bin/python.   usage:
    runcheck.py search <qualname> <n_cases> <seed> [label-filter]     -> JSON on stdout
    runcheck.py replay <replay-file.json>                             -> JSON on stdout, exit 1 if it reproduces
"""
import copy
import importlib
import json
import os
import random
import sys
import time
import traceback

sys.path.insert(0, os.path.dirname(os.path.dirname(os.path.abspath(__file__))))
REPO_SRC = os.environ.get('PYVC_REPO_SRC', '/repo/src')
sys.path.insert(0, REPO_SRC)
os.environ.setdefault('NUMBA_DISABLE_JIT', os.environ.get('PYVC_NUMBA_DISABLE_JIT', '1'))

import numpy as np      # noqa: E402

from pyvc import spec as S      # noqa: E402
import contracts                # noqa: E402
from native import clause_eval  # noqa: E402
from native import gens         # noqa: E402


def resolve(qualname):
    parts = qualname.split('#')[0].split('.')
    for cut in range(len(parts) - 1, 0, -1):
        try:
            mod = importlib.import_module('.'.join(parts[:cut]))
        except ImportError:
            continue
        obj = mod
        rest = parts[cut:]
        setter = False
        if rest[-1] == 'setter':
            setter = True
            rest = rest[:-1]
        owner = None
        for p in rest:
            owner = obj
            obj = getattr(obj, p) if not isinstance(obj, type) else obj.__dict__[p]
        if isinstance(obj, property):
            return obj.fset if setter else obj.fget
        if isinstance(obj, staticmethod):
            return obj.__func__
        if hasattr(obj, '__wrapped__') and not hasattr(obj, 'py_func'):
            obj = obj.__wrapped__          # functools.cache wrapper -> the real function
        return obj
    raise ImportError(qualname)


def describe(v, depth=0):
    if isinstance(v, np.ndarray):
        return {'ndarray': v.tolist(), 'dtype': str(v.dtype)} if v.size <= 400 else {'ndarray_shape': list(v.shape)}
    if isinstance(v, (list, tuple)):
        return [describe(x, depth + 1) for x in v[:200]]
    if isinstance(v, dict):
        return {str(k): describe(x, depth + 1) for k, x in v.items()}
    if isinstance(v, (int, float, str, bool)) or v is None:
        return v
    if isinstance(v, (np.integer,)):
        return int(v)
    if isinstance(v, (np.floating,)):
        return float(v)
    if hasattr(v, '__dict__') and depth < 3:
        return {'object': type(v).__name__, 'fields': {k: describe(x, depth + 1) for k, x in vars(v).items()}}
    return repr(v)[:200]


def check_case(c, fn, args, ev, label_filter=None):
    """-> dict(status='ok'|'skip'|'fail', failed=[labels], exc=..., skipped=[labels])"""
    params = list(args)
    pre_ids = clause_eval.reachable_ids(list(args.values()))
    memo = {}
    old = copy.deepcopy(args, memo)
    back = {}
    for oid, cp in memo.items():
        if isinstance(oid, int) and cp is not None:
            back[id(cp)] = None
    # deep-copy memo maps id(original) -> copy; same(old(x), y) must compare originals
    import ctypes
    orig_by_id = {}
    stack = list(args.values())
    seen = set()
    while stack:
        o = stack.pop()
        if o is None or isinstance(o, (int, float, str, bool)) or id(o) in seen:
            continue
        seen.add(id(o))
        orig_by_id[id(o)] = o
        if isinstance(o, (list, tuple)):
            stack.extend(o)
        elif isinstance(o, dict):
            stack.extend(o.values())
        elif hasattr(o, '__dict__') and not isinstance(o, np.ndarray):
            stack.extend(vars(o).values())
    back = {id(cp): orig_by_id[oid] for oid, cp in memo.items() if oid in orig_by_id}
    snap = clause_eval.snapshot(list(args.values()))
    ns0 = ev.namespace(args, old, None, pre_ids, snap=snap, back=back)
    for label, clause in c.labelled(c.requires, 'pre'):
        try:
            if not ev.holds(clause, ns0, params):
                return dict(status='skip', why='requires ' + label)
        except clause_eval.NotNative:
            pass
    expected_exc = []
    may_raise = set(e for e, cnd in c.raises.items() if cnd is None)
    for exc, cond in c.raises.items():
        if cond is None:
            continue
        try:
            if ev.holds(cond, ns0, params):
                expected_exc.append(exc)
        except clause_eval.NotNative:
            pass
    failed, skipped = [], []
    try:
        result = fn(**args)
    except Exception as e:
        name = type(e).__name__
        if name in c.raises:
            if name in expected_exc or name in may_raise:
                bad = []
                nsx = ev.namespace(args, old, None, pre_ids, snap=snap, back=back)
                for label, clause in c.labelled(c.ghost.get('xensures', {}).get(name, []), 'xens'):
                    try:
                        if not ev.holds(clause, nsx, params):
                            bad.append('xpost:%s:%s' % (name, label))
                    except clause_eval.NotNative:
                        pass
                if bad:
                    return dict(status='fail', failed=bad, exc=repr(e)[:300])
                return dict(status='ok', raised=name)
            return dict(status='fail', failed=['xpost:%s:only-when' % name], exc=repr(e)[:300])
        return dict(status='fail', failed=['noexc:%s' % name], exc=repr(e)[:300],
                    tb=traceback.format_exc()[-800:])
    if expected_exc:
        return dict(status='fail', failed=['xpost:returns-only-if-not:%s' % expected_exc[0]])
    ns = ev.namespace(args, old, result, pre_ids, snap=snap, back=back)
    for label, clause in c.labelled(list(c.ensures) + list(c.ghost.get('native_ensures', [])), 'post'):
        if label_filter and label_filter not in label:
            continue
        if label.startswith('def:'):
            continue        # definitional clauses introduce ghost abbreviations: nothing to check
        try:
            if not ev.holds(clause, ns, params):
                failed.append('post:' + label)
        except clause_eval.NotNative as e:
            skipped.append(label)
        except Exception as e:
            failed.append('post:%s (evaluation error %r)' % (label, e))
    # frame: arguments not named in assigns must be unchanged
    assigned = set()
    for a in c.assigns:
        assigned.add(a.split('.')[0].split('[')[0])
    for k in args:
        if k not in assigned and not clause_eval._same_content(args[k], old[k]) and \
                not isinstance(args[k], (int, float, str, bool)) and not hasattr(args[k], '__dict__'):
            failed.append('frame:%s-modified' % k)
    return dict(status='fail' if failed else 'ok', failed=failed, skipped=skipped, result=describe(result))


def search(qualname, n, seed, label_filter=None):
    contracts.load_all()
    c = S.CONTRACTS[qualname]
    fn = resolve(qualname)
    gen = gens.GENS.get(qualname)
    if gen is None:
        return dict(qualname=qualname, error='no generator')
    ev = clause_eval.Evaluator(S.SPECFNS)
    rng = random.Random(seed)
    stats = dict(qualname=qualname, cases=0, checked=0, skipped_pre=0, failures=[], not_native=set(), raised=0)
    t0 = time.time()
    per_key = {}
    for idx in range(n):
        case_rng = random.Random(rng.getrandbits(48))
        args = gen(case_rng)
        stats['cases'] += 1
        shown = describe(args)
        r = check_case(c, fn, args, ev, label_filter)
        if r['status'] == 'skip':
            stats['skipped_pre'] += 1
            continue
        stats['checked'] += 1
        stats['raised'] += 1 if r.get('raised') else 0
        stats['not_native'].update(r.get('skipped', []))
        if r['status'] == 'fail':
            # at most three inputs per distinct set of failed clauses, and the search goes on: a clause that fails on every
            # input (a listed open finding) must not hide a different clause that fails on rare inputs only
            key = tuple(sorted(r['failed']))
            per_key[key] = per_key.get(key, 0) + 1
            if per_key[key] <= 3:
                stats['failures'].append(dict(index=idx, seed=seed, args=shown if len(str(shown)) < 20000 else str(shown)[:2000] + ' ...', failed=r['failed'],
                                              exc=r.get('exc'), result=r.get('result')))
            if len(per_key) >= 6:
                break
    stats['not_native'] = sorted(stats['not_native'])
    stats['wall_s'] = time.time() - t0
    return stats


def replay(path):
    rep = json.load(open(path))
    nat = rep.get('native')
    if not nat:
        print(json.dumps(dict(reproduced=False, why='replay file carries no native input')))
        return 0
    if nat.get('explicit_args'):
        return replay_args(path)
    contracts.load_all()
    q = nat['qualname']
    c = S.CONTRACTS[q]
    fn = resolve(q)
    gen = gens.GENS[q]
    ev = clause_eval.Evaluator(S.SPECFNS)
    rng = random.Random(nat['seed'])
    args = None
    for idx in range(nat['index'] + 1):
        case_rng = random.Random(rng.getrandbits(48))
        args = gen(case_rng)
    r = check_case(c, fn, args, ev)
    out = dict(reproduced=r['status'] == 'fail', failed=r.get('failed'), args=describe(args))
    print(json.dumps(out, default=str))
    return 1 if out['reproduced'] else 0


def build_args(spec):
    out = {}
    for name, d in spec.items():
        if d['kind'] in ('int', 'real', 'bool'):
            out[name] = d['value']
        elif d['kind'] == 'list':
            out[name] = list(d['value'])
        elif d['kind'] in ('arr1', 'arr2'):
            a = np.array(d['value'], dtype=float if d.get('dtype') == 'real' else int)
            out[name] = a.reshape(d['shape']) if a.size == 0 else a
        else:
            raise ValueError('kind ' + d['kind'])
    return out


def replay_args(path):
    """explicit arguments (decoded from a solver model, or stored in a replay file) against the real function"""
    rep = json.load(open(path))
    spec = rep.get('args') or (rep.get('native') or {}).get('explicit_args')
    q = rep.get('qualname') or rep['native']['qualname']
    contracts.load_all()
    c = S.CONTRACTS[q]
    fn = resolve(q)
    ev = clause_eval.Evaluator(S.SPECFNS)
    args = build_args(spec)
    r = check_case(c, fn, args, ev)
    print(json.dumps(dict(status=r['status'], failed=r.get('failed'), why=r.get('why'), exc=r.get('exc'),
                          result=r.get('result'), args=describe(args)), default=str))
    return 1 if r['status'] == 'fail' else 0


if __name__ == '__main__':
    if sys.argv[1] == 'replay-args':
        sys.exit(replay_args(sys.argv[2]))
    if sys.argv[1] == 'search':
        res = search(sys.argv[2], int(sys.argv[3]), int(sys.argv[4]), sys.argv[5] if len(sys.argv) > 5 else None)
        print(json.dumps(res, default=str))
    elif sys.argv[1] == 'replay':
        sys.exit(replay(sys.argv[2]))
