"""Property-level BOUNDED stand-ins (run under /venv/bin/python against the real package).  They cover the clauses that
no contract within reach decides (convergence within budget, SPD after rounding, compiled-code equivalence, real process
pools, liveness).  Reported under coverage.bounded with their stated bound; never counted as proved.
usage: bounded.py <name> <tier> <seed>   -> one JSON object on stdout"""
import json
import multiprocessing
import os
import subprocess
import sys
import time

sys.path.insert(0, os.path.dirname(os.path.dirname(os.path.abspath(__file__))))
REPO_SRC = os.environ.get('PYVC_REPO_SRC', '/repo/src')
sys.path.insert(0, REPO_SRC)
os.environ.setdefault('NUMBA_DISABLE_JIT', '1')

import io                       # noqa: E402
import contextlib               # noqa: E402
import random                   # noqa: E402
import numpy as np              # noqa: E402


def quiet(f, *a, **k):
    with contextlib.redirect_stdout(io.StringIO()):
        return f(*a, **k)


def spd(rng, n, lo, hi):
    a = rng.standard_normal((n, n))
    q, _ = np.linalg.qr(a)
    d = rng.uniform(lo, hi, n)
    m = (q * d) @ q.T
    return (m + m.T) / 2


def synthetic(rng, rows, sensors, regimes=2, scale=1.0):
    out = []
    per = rows // regimes
    for r in range(regimes):
        mix = rng.standard_normal((sensors, sensors)) * 0.5 + np.eye(sensors) * (1 + r)
        out.append(rng.standard_normal((per, sensors)) @ mix + 3.0 * r)
    return np.vstack(out) * scale


# ------------------------------------------------------------------ C02 / C03
def _balance_rho(rho, residual_primal, tolerance_primal, residual_dual, tolerance_dual):
    """residual balancing (Boyd et al. 3.4.1): the usual adaptive-rho rule a caller would plug in"""
    if residual_primal > 10 * residual_dual:
        return 2 * rho
    if residual_dual > 10 * residual_primal:
        return rho / 2
    return rho


def admm(tier, seed):
    from fast_ticc import admm as A
    from fast_ticc.admm import solver
    from fast_ticc import matrix_compression as mc
    rng = np.random.default_rng(seed)
    n_cases = 12 if tier == 'quick' else 150
    fails, cases, max_iter_seen = [], 0, 0
    calls = {'n': 0, 'stopped': False}
    orig = solver.check_convergence

    def counting(*a, **k):
        r = orig(*a, **k)
        calls['n'] += 1
        calls['stopped'] = bool(r[0])
        return r
    solver.check_convergence = counting
    try:
        for i in range(n_cases):
            w = int(rng.integers(1, 4))
            n = int(rng.integers(1, 4 if tier == 'quick' else 6))
            nw = w * n
            S = spd(rng, nw, 0.25, 4.0)
            lam = float(rng.choice([0.0, 1e-3, 0.11, 0.5, 1.0]))
            calls['n'], calls['stopped'] = 0, False
            adaptive = (i % 3 == 2)         # every third case runs with an adaptive-rho callback
            th = mc.reinflate_matrix(A.admm_optimize_theta(S, lam, w, n, rho_update=_balance_rho if adaptive else None).theta)
            cases += 1
            iters = calls['n'] + 1
            max_iter_seen = max(max_iter_seen, iters)
            what = None
            if not calls['stopped']:
                what = 'C02 did not stop within the budget (unconditional clause)'
            elif not np.all(np.isfinite(th)) or not np.array_equal(th, th.T):
                what = 'C03 Theta not finite/symmetric'
            else:
                try:
                    np.linalg.cholesky(th)
                except np.linalg.LinAlgError:
                    what = 'C03 Theta not positive definite'
            if what is None:
                # block-Toeplitz within tolerance: all occurrences of a class agree
                dev = 0.0
                for b in range(w):
                    for j in range(1, w - b):
                        dev = max(dev, float(np.max(np.abs(th[j * n:(j + 1) * n, (b + j) * n:(b + j + 1) * n] - th[0:n, b * n:(b + 1) * n]))))
                if dev > 5e-3:
                    what = 'C02 not block-Toeplitz within tolerance (max deviation %.2e)' % dev
            if what is None:
                # no block-Toeplitz symmetric perturbation decreases the objective noticeably
                def obj(T):
                    sign, ld = np.linalg.slogdet(T)
                    return np.inf if sign <= 0 else -ld + np.trace(S @ T) + lam * np.sum(np.abs(T))
                base = obj(th)
                for _ in range(20):
                    blocks = [rng.standard_normal((n, n)) * 1e-3 for _ in range(w)]
                    blocks[0] = (blocks[0] + blocks[0].T) / 2
                    P = np.zeros((nw, nw))
                    for b in range(w):
                        for j in range(w - b):
                            P[j * n:(j + 1) * n, (b + j) * n:(b + j + 1) * n] = blocks[b]
                            if b:
                                P[(b + j) * n:(b + j + 1) * n, j * n:(j + 1) * n] = blocks[b].T
                    if obj(th + P) < base - 1e-4 * max(1.0, abs(base)):
                        what = 'C02 objective decreases along a block-Toeplitz perturbation (not a minimiser within tolerance)'
                        break
            if what:
                fails.append(dict(what='admm:' + what.split(' (')[0], detail=what, input=dict(seed=seed, case=i, W=w, N=n, lam=lam, adaptive_rho=adaptive)))
        # scale sweep for C03: variances 1e-12 .. 1e12
        scale_fail = []
        for p in ([-12, -6, 0, 6, 9, 12] if tier == 'quick' else range(-12, 13, 2)):
            S = spd(rng, 2, 0.5, 2.0) * (10.0 ** p)
            th = mc.reinflate_matrix(A.admm_optimize_theta(S, 0.11, 1, 2).theta)
            cases += 1
            ok = bool(np.all(np.isfinite(th))) and np.array_equal(th, th.T)
            if ok:
                try:
                    np.linalg.cholesky(th)
                except np.linalg.LinAlgError:
                    ok = False
            if not ok:
                scale_fail.append(p)
        if scale_fail:
            fails.append(dict(what='admm:C03 Theta not finite symmetric positive definite at extreme scale',
                              detail='covariance scale 1e%s' % scale_fail, input=dict(seed=seed, scales=scale_fail)))
    finally:
        solver.check_convergence = orig
    return dict(kind='bounded', name='admm', cases=cases, failing=fails, max_iterations_seen=max_iter_seen,
                bound='%d random SPD covariances with eigenvalues in [0.25,4], NW<=%d, lambda in {0,1e-3,0.11,0.5,1}, every third case with a residual-balancing rho_update callback; scale sweep 1e-12..1e12 on 2x2'
                      % (n_cases, 9 if tier == 'quick' else 15))


# ------------------------------------------------------------------ end-to-end result checks (C03 C04 C05 C06 C09 C16)
def end_to_end(tier, seed):
    import fast_ticc
    rng = np.random.default_rng(seed)
    fails, cases = [], 0
    configs = [(90, 2, 1, 2), (90, 2, 2, 3), (120, 1, 3, 2)] if tier == 'quick' else \
        [(90, 2, 1, 2), (90, 2, 2, 3), (120, 1, 3, 2), (150, 3, 2, 3), (80, 2, 4, 2), (100, 2, 2, 4)]
    for (rows, sensors, w, k) in configs:
        for scale in ([1.0, 1e-4, 1e4] if tier == 'quick' else [1.0, 1e-6, 1e-3, 1e3, 1e6]):
            for limit in (1, 3):
                random.seed(seed)
                np.random.seed(seed)
                data = synthetic(rng, rows, sensors, regimes=2, scale=scale)
                beta = 5.0
                try:
                    r = quiet(fast_ticc.ticc_labels, data, window_size=w, num_clusters=k, label_switching_cost=beta,
                              iteration_limit=limit, min_cluster_size=3)
                except (AssertionError, RuntimeError):
                    continue        # the run did not complete (empty GMM component / no donor): outside the quantifier
                cases += 1
                bad = []
                f = (w - 1) // 2
                lab = r.point_labels
                if len(lab) != rows or any(x != -1 for x in lab[:f]) or any(x != -1 for x in lab[rows - (w - 1 - f):]) or \
                        any(not (0 <= x < k) for x in lab[f:rows - (w - 1 - f)]):
                    bad.append('C04 labels/margins')
                if len(r.markov_random_fields) != k or any(m.shape != (sensors * w, sensors * w) for m in r.markov_random_fields):
                    bad.append('C04 MRF count/shape')
                vals = [r.bayesian_information_criterion, r.label_assignment_cost, r.overall_log_likelihood,
                        r.overall_log_likelihood_mean, r.overall_log_likelihood_median] + list(r.all_log_likelihood)
                if not all(np.isfinite(v) for v in vals):
                    bad.append('C03 non-finite value in result')
                for m in r.markov_random_fields:
                    if not np.array_equal(m, m.T) or not np.all(np.isfinite(m)):
                        bad.append('C03 MRF not symmetric/finite')
                        break
                    try:
                        np.linalg.cholesky(m)
                    except np.linalg.LinAlgError:
                        bad.append('C03 MRF not positive definite')
                        break
                inner = lab[f:rows - (w - 1 - f)]
                switches = sum(1 for a, b in zip(inner, inner[1:]) if a != b)
                lhs, rhs = r.label_assignment_cost, -r.overall_log_likelihood + beta * switches
                if abs(lhs - rhs) > 1e-6 * max(1.0, abs(lhs), abs(rhs)):
                    bad.append('C06 cost != -LL + beta*switches (%.6g vs %.6g)' % (lhs, rhs))
                if len(r.all_log_likelihood) != len(inner):
                    bad.append('C06 per-point list length')
                if abs(r.overall_log_likelihood - float(np.sum(r.all_log_likelihood))) > 1e-6 * max(1.0, abs(r.overall_log_likelihood)):
                    bad.append('C06 overall sum')
                for b in bad:
                    fails.append(dict(what='end-to-end:' + b.split(' (')[0], detail=b,
                                      input=dict(seed=seed, rows=rows, sensors=sensors, W=w, K=k, scale=scale, iteration_limit=limit)))
    return dict(kind='bounded', name='end_to_end', cases=cases, failing=fails,
                bound='%d synthetic single-series runs (<=150 rows, <=3 sensors, W<=4, K<=4, scales 1e-6..1e6, iteration_limit 1 and 3)' % cases)



# ------------------------------------------------------------------ C17: the index against its definition on complete converged runs
def chi_members(tier, seed):
    """Calinski-Harabasz index of complete converged runs against the definition, with the cluster mean taken as the MEAN OF
    THE WINDOWS THE RESULT LABELS WITH THAT CLUSTER (the contract of calinski_harabasz_index speaks about the stored
    stacked_data_mean; whether that is the mean of the final members is a cross-phase fact no per-function contract sees).
    The global centre is the scalar the code uses -- the per-column centroid is finding F7 and is kept apart."""
    import logging
    import fast_ticc
    from fast_ticc import data_preparation

    class Watch(logging.Handler):
        converged = False

        def emit(self, record):
            if 'converged' in record.getMessage():
                self.converged = True

    watch = Watch()
    lg = logging.getLogger('fast_ticc.main_loop')
    old_level, old_prop = lg.level, lg.propagate
    lg.setLevel(logging.INFO)
    lg.addHandler(watch)
    lg.propagate = False
    levels = [np.array([4.0, 0.0, -2.0]), np.array([-3.0, 2.0, 1.0]), np.array([0.5, -4.0, 3.0])]
    runs = [(3, 50, 0, [150, 150]), (3, 5, 1, [150, 150]), (2, 50, 0, [150, 150]), (3, 50, 3, [100, 60, 140, 80]), (3, 5, 2, [150, 150]),
            (4, 5, 0, [150, 150])]
    if tier != 'quick':
        runs += [(3, 20, 5, [400, 300, 900, 300, 600])] + [(k, b, s, [120, 90, 150]) for k in (2, 3, 4) for b in (2, 20) for s in range(6, 12)]
    fails, cases, small = [], 0, 0
    try:
        for (k, beta, sd, lengths) in runs:
            rng = np.random.default_rng(sd)
            series = np.concatenate([rng.normal(size=(n, 3)) + levels[i % 3] for i, n in enumerate(lengths)])
            random.seed(sd)
            np.random.seed(sd)
            watch.converged = False
            try:
                r = quiet(fast_ticc.ticc_labels, series, window_size=2, num_clusters=k, label_switching_cost=beta, min_cluster_size=10,
                          iteration_limit=50)
            except (AssertionError, RuntimeError):
                continue
            if not watch.converged:
                continue
            cases += 1
            X = np.asarray(data_preparation.stack_training_data(series, 2), dtype=float)
            lab = np.array([x for x in r.point_labels if x >= 0])
            g = float(np.mean(X))
            B = Wd = 0.0
            sizes = []
            for c in range(k):
                M = X[lab == c]
                sizes.append(len(M))
                if len(M):
                    mu = M.mean(axis=0)
                    B += len(M) * float(np.sum((mu - g) ** 2))
                    Wd += float(np.sum((M - mu) ** 2))
            want = (B / (k - 1)) / (Wd / (len(X) - k))
            got = float(r.calinski_harabasz_index)
            if abs(got - want) > 1e-7 * max(1.0, abs(want)):
                tiny = min(sizes) < 2
                small += tiny
                what = 'chi-members:C17 converged run ending with a cluster of fewer than 2 windows: index uses cluster means of the repopulated partition, not of the final members' \
                    if tiny else 'chi-members:C17 index differs from the definition in a converged run whose clusters all hold at least 2 windows'
                fails.append(dict(what=what, detail='reported %.9g, definition %.9g' % (got, want),
                                  input=dict(K=k, beta=beta, seed=sd, regime_lengths=lengths, window_size=2, min_cluster_size=10, final_cluster_sizes=sizes)))
    finally:
        lg.removeHandler(watch)
        lg.setLevel(old_level)
        lg.propagate = old_prop
    return dict(kind='bounded', name='chi_members', cases=cases, failing=fails,
                bound='%d complete converged single-series runs (300-2500 rows, 3 sensors, W=2, K<=4)' % cases)


# ------------------------------------------------------------------ C09 / C12 / C13 / C16: what each phase was actually given
class _InlinePool:
    """same interface as the pool the main loop creates; runs the task at submission in this process so that what
    the optimiser is handed can be observed.  The library code is untouched.  Like multiprocessing.Pool it says how many
    workers it has (`_processes`): every other run pretends to have three."""
    _processes = 1
    class _Task:
        def __init__(self, f, a, k):
            try:
                self.r, self.e = f(*a, **(k or {})), None
            except Exception as e:          # re-raised at get(), as a real pool does
                self.r, self.e = None, e

        def get(self, timeout=None):
            if self.e is not None:
                raise self.e
            return self.r

    def apply_async(self, f, args=(), kwds=None):
        return _InlinePool._Task(f, args, kwds)

    def close(self):
        pass

    def join(self):
        pass

    def terminate(self):
        pass


def phase_trace(tier, seed):
    import fast_ticc
    from fast_ticc import main_loop, graphical_lasso, cluster_maintenance, cluster_label_assignment
    rng = np.random.default_rng(seed)
    fails, cases, incomplete = [], 0, 0
    trace = {}
    orig = dict(pool=main_loop._init_task_pool, opt=graphical_lasso.optimize_markov_random_fields,
                task=graphical_lasso._setup_optimization_task, rep=cluster_maintenance.repopulate_empty_clusters,
                pred=cluster_label_assignment.predict_cluster_labels, stats=cluster_maintenance.update_all_cluster_statistics)

    def opt(model, data, pool):
        trace['rounds'].append(dict(labels=list(model.point_labels), tasks=[], data=data,
                                    members=[list(c.member_points) for c in model.clusters]))
        trace['order'].append('optimise')
        return orig['opt'](model, data, pool)

    def task(cluster, n, w, lam, pool):
        trace['rounds'][-1]['tasks'].append(dict(cov=np.atleast_2d(np.array(cluster.empirical_covariance, copy=True)), mean=np.array(cluster.stacked_data_mean, copy=True),
                                                 N=n, W=w, lam=lam))
        return orig['task'](cluster, n, w, lam, pool)

    def rep(model):
        trace['order'].append('repopulate')
        return orig['rep'](model)

    def pred(model, data):
        trace['order'].append('relabel')
        trace['scored_mrfs'] = [np.array(c.train_inverse, copy=True) for c in model.clusters]
        out = orig['pred'](model, data)
        trace['predicted'].append(list(out.point_labels))
        return out

    def stats(model, data):
        trace['order'].append('statistics')
        return orig['stats'](model, data)

    pool_workers = [1]

    def make_pool(n):
        p_ = _InlinePool()
        p_._processes = pool_workers[0]
        return p_
    main_loop._init_task_pool = make_pool
    graphical_lasso.optimize_markov_random_fields = opt
    graphical_lasso._setup_optimization_task = task
    cluster_maintenance.repopulate_empty_clusters = rep
    cluster_label_assignment.predict_cluster_labels = pred
    cluster_maintenance.update_all_cluster_statistics = stats
    configs = []
    n_cfg = int(os.environ.get('PHASE_TRACE_RUNS', 0)) or (40 if tier == 'quick' else 600)
    for i in range(n_cfg):
        sensors, w, k = int(rng.integers(1, 3)), int(rng.integers(1, 4)), int(rng.integers(2, 6))
        configs.append(dict(rows=int(rng.integers(60, 130)), sensors=sensors, w=w, k=k,
                            beta=float(rng.choice([0.0, 2.0, 25.0, 400.0, 1e6])), limit=int(rng.choice([1, 2, 3, 6, 10])),
                            biased=bool(i % 2), m=int(rng.integers(2, 6)), eps=float(rng.choice([0.0, 0.0, 1e-3, 0.05, 0.3])), scale=float(rng.choice([1.0, 1.0, 10.0, 100.0])),
                            lam=(0.11 if i % 3 else 'matrix')))
    try:
        for c in configs:
            data = synthetic(rng, c['rows'], c['sensors'], regimes=int(rng.integers(1, 4)), scale=c['scale'])
            nw = c['sensors'] * c['w']
            lam = np.full((nw, nw), 0.07) if c['lam'] == 'matrix' else c['lam']
            trace.clear()
            trace.update(rounds=[], order=[], predicted=[])
            pool_workers[0] = 3 if (cases + incomplete) % 2 else 1
            random.seed(seed)
            np.random.seed(seed)
            try:
                r = quiet(fast_ticc.ticc_labels, data, window_size=c['w'], num_clusters=c['k'], label_switching_cost=c['beta'],
                          iteration_limit=c['limit'], min_cluster_size=c['m'], biased_covariance=c['biased'], sparsity_weight=lam,
                          min_meaningful_covariance=c['eps'])
            except Exception:
                incomplete += 1
                continue            # run did not complete: outside the quantifier of every property checked here
            cases += 1
            bad = []
            rounds = trace['rounds']
            # C09: phase order and round count
            if not (1 <= len(rounds) <= c['limit']):
                bad.append(('C09 number of rounds outside [1, iteration_limit]', '%d rounds, limit %d' % (len(rounds), c['limit'])))
            expect, seen = [], trace['order']
            for n in range(len(rounds)):
                expect += (['repopulate'] if n else []) + ['statistics', 'optimise', 'relabel']
            if seen != expect:
                bad.append(('C09 phases not in the order repopulate(from round 2) statistics optimise relabel', ' '.join(x[:4] for x in seen)))
            if len(rounds) < c['limit'] and (len(trace['predicted']) < 2 or trace['predicted'][-1] != trace['predicted'][-2]):
                bad.append(('C09 stopped before the limit without two equal consecutive labellings', ''))
            f = (c['w'] - 1) // 2
            if trace['predicted'] and list(r.point_labels[f:f + len(trace['predicted'][-1])]) != trace['predicted'][-1]:
                bad.append(('C09 returned labels are not those of the final relabelling', ''))
            # C09: the MRFs handed back are the ones the final relabelling scored the points against; C03: the floor
            sm = trace.get('scored_mrfs')
            if sm is not None and (len(sm) != len(r.markov_random_fields) or
                                   any(not np.array_equal(a, b) for a, b in zip(sm, r.markov_random_fields))):
                bad.append(('C09 returned MRFs are not the ones the final relabelling was scored against', ''))
            if c['eps'] > 0 and any(np.any((np.abs(mm) > 0) & (np.abs(mm) < c['eps'])) for mm in r.markov_random_fields):
                bad.append(('C03 a returned MRF entry has magnitude strictly between 0 and the requested floor', 'eps=%g' % c['eps']))
            for n, rd in enumerate(rounds):
                lab = np.array(rd['labels'])
                if len(rd['tasks']) != c['k']:
                    bad.append(('C12 number of optimisation tasks differs from K', 'round %d: %d tasks for %d clusters' % (n + 1, len(rd['tasks']), c['k'])))
                    continue
                for kk, t in enumerate(rd['tasks']):
                    rows = rd['data'][lab == kk]
                    if sorted(rd['members'][kk]) != [int(x) for x in np.nonzero(lab == kk)[0]]:
                        bad.append(('C13 member list is not the set of points carrying the label', 'round %d cluster %d' % (n + 1, kk)))
                    if rows.shape[0] < 2:
                        continue
                    want = np.atleast_2d(np.cov(rows, rowvar=False, bias=c['biased']))      # the estimator the USER asked for
                    tol = 1e-9 * max(1.0, float(np.max(np.abs(want))))
                    if t['cov'].shape != want.shape or float(np.max(np.abs(t['cov'] - want))) > tol:
                        bad.append(('C09 the statistics and optimisation phases of a round did not work on the current labelling', 'round %d cluster %d' % (n + 1, kk)))
                        bad.append(('C12 covariance handed to the optimiser is not the requested covariance of the windows labelled k',
                                    'round %d cluster %d (%s estimator requested, %d windows)' % (n + 1, kk, 'biased' if c['biased'] else 'unbiased', rows.shape[0])))
                    if float(np.max(np.abs(np.ravel(t['mean']) - rows.mean(axis=0)))) > 1e-9 * max(1.0, float(np.max(np.abs(rows)))):
                        bad.append(('C12 mean is not the mean of the windows labelled k', 'round %d cluster %d' % (n + 1, kk)))
                    if t['W'] != c['w'] or t['N'] != c['sensors'] or not np.array_equal(np.asarray(t['lam']), np.asarray(lam)):
                        bad.append(('C12 W, N or lambda not passed unchanged to the optimiser', 'round %d cluster %d' % (n + 1, kk)))
            # C16: BIC from the covariances of the LAST fit, the returned MRFs and the final labels
            if rounds and len(rounds[-1]['tasks']) == c['k']:
                inner = trace['predicted'][-1]
                P, last = 0, -1
                for x in inner:
                    if x != last:
                        P += int(np.sum(np.abs(r.markov_random_fields[x]) > 2e-5))
                        last = x
                ll = 0.0
                for kk in range(c['k']):
                    th = r.markov_random_fields[kk]
                    ll += np.linalg.slogdet(th)[1] - np.trace(th @ rounds[-1]['tasks'][kk]['cov'])
                want = P * np.log(len(inner)) - 2 * ll
                if abs(want - r.bayesian_information_criterion) > 1e-8 * max(1.0, abs(want)):
                    bad.append(('C16 BIC is not P ln T - 2 sum(logdet - tr(Theta S)) with S the covariance each cluster was fitted to',
                                '%.10g reported, %.10g by definition' % (r.bayesian_information_criterion, want)))
            for what, detail in bad:
                fails.append(dict(what='phase-trace:' + what, detail=detail, input=dict(seed=seed, **c)))
    finally:
        main_loop._init_task_pool = orig['pool']
        graphical_lasso.optimize_markov_random_fields = orig['opt']
        graphical_lasso._setup_optimization_task = orig['task']
        cluster_maintenance.repopulate_empty_clusters = orig['rep']
        cluster_label_assignment.predict_cluster_labels = orig['pred']
        cluster_maintenance.update_all_cluster_statistics = orig['stats']
    return dict(kind='bounded', name='phase_trace', cases=cases, runs_that_did_not_complete=incomplete, failing=fails,
                bound='%d completed synthetic runs (<=130 rows, <=2 sensors, W<=3, K<=5, beta in {0,2,25,400,1e6}, iteration_limit in {1,2,3,6,10}, '
                      'both covariance estimators, scalar and matrix lambda, covariance floor in {0,1e-3,0.05,0.3}) with an in-process pool; phases observed through wrappers, library code untouched' % cases)



# ------------------------------------------------------------------ C18: equivalent forms of the hyper-parameters, end to end
def forms_equivalence(tier, seed):
    import fast_ticc
    rng = np.random.default_rng(seed)
    fails, cases = [], 0

    def run(fn, data, **kw):
        random.seed(seed)
        np.random.seed(seed)
        return quiet(fn, data, **kw)

    def same(a, b, joint):
        la, lb = a.point_labels, b.point_labels
        if la != lb:
            return 'labels differ'
        if abs(a.label_assignment_cost - b.label_assignment_cost) > 1e-9 * max(1.0, abs(a.label_assignment_cost)):
            return 'label assignment cost differs (%.10g vs %.10g)' % (a.label_assignment_cost, b.label_assignment_cost)
        for x, y in zip(a.markov_random_fields, b.markov_random_fields):
            if not np.allclose(x, y, rtol=1e-8, atol=1e-10):
                return 'MRFs differ'
        return None
    n_rounds = 2 if tier == 'quick' else 8
    for rnd in range(n_rounds):
        sensors, w = int(rng.integers(1, 3)), int(rng.integers(1, 4))
        nw = sensors * w
        base = dict(window_size=w, num_clusters=int(rng.integers(2, 4)), iteration_limit=3, min_cluster_size=3)
        beta = float(rng.choice([0.0, 2.0, 7.0, 120.0]))
        lam = float(rng.choice([0.05, 0.11, 1.0]))
        single = synthetic(rng, int(rng.integers(60, 110)), sensors)
        series = [synthetic(rng, int(rng.integers(30, 70)), sensors) for _ in range(int(rng.integers(2, 4)))]
        # a short last series so that a switch at a series boundary matters
        series.append(synthetic(rng, w + 5, sensors, regimes=1) + 2.5)
        n_single = single.shape[0] - w + 1
        n_joint = sum(s_.shape[0] - w + 1 for s_ in series)
        variants = [('beta scalar vs filled vector', dict(label_switching_cost=beta, sparsity_weight=lam),
                     dict(label_switching_cost=lambda n: np.full(n, beta), sparsity_weight=lam)),
                    ('lambda scalar vs filled matrix', dict(label_switching_cost=beta, sparsity_weight=lam),
                     dict(label_switching_cost=beta, sparsity_weight=np.full((nw, nw), lam))),
                    ('lambda int vs float vs numpy scalar', dict(label_switching_cost=beta, sparsity_weight=1),
                     dict(label_switching_cost=beta, sparsity_weight=np.float64(1.0))),
                    ('beta int vs float', dict(label_switching_cost=int(beta), sparsity_weight=lam),
                     dict(label_switching_cost=float(int(beta)), sparsity_weight=lam))]
        for label, kw_a, kw_b in variants:
            for fn, data, n, joint in ((fast_ticc.ticc_labels, single, n_single, False), (fast_ticc.ticc_joint_labels, series, n_joint, True)):
                ka = {k: (v(n) if callable(v) else v) for k, v in kw_a.items()}
                kb = {k: (v(n) if callable(v) else v) for k, v in kw_b.items()}
                try:
                    ra = run(fn, data, **base, **ka)
                    rb = run(fn, data, **base, **kb)
                except (AssertionError, RuntimeError, np.linalg.LinAlgError):
                    continue
                cases += 1
                why = same(ra, rb, joint)
                if why:
                    fails.append(dict(what='forms:%s give different results (%s front end)' % (label, 'joint' if joint else 'single'), detail=why,
                                      input=dict(seed=seed, round=rnd, beta=beta, lam=lam, **base)))
    return dict(kind='bounded', name='forms_equivalence', cases=cases, failing=fails,
                bound='%d pairs of complete runs (both front ends; <=110 rows, <=2 sensors, W<=3, K<=3, 3 rounds) comparing labels exactly, cost to 1e-9 and MRFs to 1e-8' % cases)


# ------------------------------------------------------------------ C14: reproducibility / pool size
def _one_run(args):
    nproc, mp_on, seed, extra_first = args
    env = dict(os.environ)
    if mp_on:
        env['CUPCAKE_ENABLE_MULTIPROCESSING'] = '1'
    else:
        env.pop('CUPCAKE_ENABLE_MULTIPROCESSING', None)
    code = r'''
import sys, io, contextlib, random, hashlib
sys.path.insert(0, %r)
import numpy as np, fast_ticc
nproc, seed, extra = %d, %d, %d
rng = np.random.default_rng(7)
data = np.vstack([rng.standard_normal((50, 2)), rng.standard_normal((50, 2)) * 2 + 3])
with contextlib.redirect_stdout(io.StringIO()):
    if extra:
        random.seed(1); np.random.seed(1)
        fast_ticc.ticc_labels(rng.standard_normal((40, 3)), window_size=1, num_clusters=2, label_switching_cost=2, iteration_limit=1, min_cluster_size=2)
    random.seed(seed); np.random.seed(seed)
    r = fast_ticc.ticc_labels(data, window_size=2, num_clusters=3, label_switching_cost=3, iteration_limit=3, min_cluster_size=3, num_processors=nproc)
h = hashlib.sha256()
h.update(np.asarray(r.point_labels).tobytes())
for m in r.markov_random_fields: h.update(np.ascontiguousarray(m).tobytes())
h.update(np.float64(r.label_assignment_cost).tobytes()); h.update(np.float64(r.bayesian_information_criterion).tobytes())
print(h.hexdigest())
''' % (REPO_SRC, nproc, seed, extra_first)
    p = subprocess.run(['/venv/bin/python', '-c', code], capture_output=True, text=True, env=env, timeout=600)
    return (p.stdout.strip().splitlines() or ['ERROR ' + p.stderr[-300:]])[-1]


def reproducibility(tier, seed):
    combos = [(1, False, 0), (1, False, 0), (3, True, 0), (1, True, 0), (1, False, 1)]
    if tier == 'thorough':
        combos += [(2, True, 0), (8, True, 0), (4, True, 1)]
    digests = [_one_run((n, mp, seed, extra)) for (n, mp, extra) in combos]
    fails = []
    if len(set(digests)) != 1:
        fails.append(dict(what='reproducibility:results differ', detail=str(list(zip(combos, digests)))[:600], input=dict(seed=seed)))
    return dict(kind='bounded', name='reproducibility', cases=len(combos), failing=fails,
                bound='one small data set; (num_processors, multiprocessing switch, preceding call) in %s; results compared by SHA-256 of labels, MRFs, cost, BIC' % combos)


# ------------------------------------------------------------------ C15: JIT vs interpreted
def jit_differential(tier, seed):
    code = r'''
import sys, json
sys.path.insert(0, %r)
import numpy as np
from fast_ticc import cluster_label_assignment as cla, likelihood as lk
rng = np.random.default_rng(%d)
out = []
for t, k in [(1, 1), (5, 3), (12, 4), (7, 2)]:
    c = np.round(rng.standard_normal((t, k)) * 4) / 2
    for beta in (0.0, 1.5, np.full(t, 2.0)):
        p, cost = cla.assign_point_cluster_labels(c, beta)
        out.append([[int(x) for x in p], float(cost)])
w, n, k, t = 2, 2, 3, 9
nw = w * n
th = np.array([np.eye(nw) * (i + 1) + 0.1 for i in range(k)])
tab = lk.all_points_all_clusters_log_likelihood_fast(w, k, rng.standard_normal((k, nw)), th,
        np.array([np.linalg.slogdet(x)[1] for x in th]), rng.standard_normal((t, nw)))
out.append(np.round(tab, 9).tolist())
# complete runs on float64, float32 and integer series: every mode must produce the same labelling (or all must refuse)
import fast_ticc, random, io, contextlib
base = np.vstack([rng.standard_normal((40, 2)), rng.standard_normal((40, 2)) * 0.5 + 3.0])
for dt in (np.float64, np.float32, np.int64):
    series = (base * (8 if dt is np.int64 else 1)).astype(dt)
    random.seed(7); np.random.seed(7)
    try:
        with contextlib.redirect_stdout(io.StringIO()):
            r = fast_ticc.ticc_labels(series, window_size=2, num_clusters=2, label_switching_cost=5, iteration_limit=2, min_cluster_size=3)
        out.append([str(np.dtype(dt)), [int(x) for x in r.point_labels], round(float(r.label_assignment_cost), 5)])
    except Exception as e:
        out.append([str(np.dtype(dt)), 'raised ' + type(e).__name__])
print(json.dumps(out))
''' % (REPO_SRC, seed)
    res = {}
    for mode, env_extra in (('interpreted', {'NUMBA_DISABLE_JIT': '1'}), ('jit', {'NUMBA_DISABLE_JIT': '0'}),
                            ('jit-4-threads', {'NUMBA_DISABLE_JIT': '0', 'NUMBA_NUM_THREADS': '4'}),
                            ('numba-absent', {'NUMBA_DISABLE_JIT': '1', 'PYVC_HIDE_NUMBA': '1'})):
        env = dict(os.environ)
        env.update(env_extra)
        prog = code if mode != 'numba-absent' else "import sys\nsys.modules['numba'] = None      # import numba fails: the package's fallback decorators are used\n" + code
        p = subprocess.run(['/venv/bin/python', '-c', prog], capture_output=True, text=True, env=env, timeout=900)
        res[mode] = (p.stdout.strip().splitlines() or ['ERROR ' + p.stderr[-400:]])[-1]
    fails = []
    if len(set(res.values())) != 1:
        fails.append(dict(what='jit-differential:modes disagree', detail=json.dumps(res)[:800], input=dict(seed=seed)))
    return dict(kind='bounded', name='jit_differential', cases=len(res), failing=fails,
                bound='labelling kernel on 4 shapes x 3 beta forms, one likelihood table and three complete runs (float64, float32, int64 series), in 4 separate processes (interpreted, JIT, JIT with 4 threads, Numba not importable)')


# ------------------------------------------------------------------ C19: read-only inputs
def readonly_inputs(tier, seed):
    import fast_ticc
    from fast_ticc import admm as A
    from fast_ticc import cluster_label_assignment as cla
    rng = np.random.default_rng(seed)
    fails, cases = [], 0

    def ro(a, order='C'):
        a = np.array(a, order=order)
        a.setflags(write=False)
        return a
    data = ro(synthetic(rng, 80, 2))
    snap = data.copy()
    try:
        random.seed(seed)
        np.random.seed(seed)
        quiet(fast_ticc.ticc_labels, data, window_size=2, num_clusters=2, label_switching_cost=3, iteration_limit=2, min_cluster_size=3)
        cases += 1
        series = [ro(synthetic(rng, 60, 2), 'F'), ro(synthetic(rng, 45, 2))]
        snaps = [s.copy() for s in series]
        random.seed(seed)
        np.random.seed(seed)
        quiet(fast_ticc.ticc_joint_labels, series, window_size=2, num_clusters=2, label_switching_cost=3, iteration_limit=2, min_cluster_size=3)
        cases += 1
        if not all(np.array_equal(a, b) for a, b in zip(series, snaps)):
            fails.append(dict(what='readonly:joint front end modified its input', detail='', input=dict(seed=seed)))
        S = ro(spd(rng, 4, 0.5, 2.0))
        lam = ro(np.full((4, 4), 0.1))
        A.admm_optimize_theta(S, lam, 2, 2)
        cases += 1
        cost = ro(rng.standard_normal((6, 3)))
        beta = ro(np.full(6, 1.0))
        cla.assign_point_cluster_labels(cost, beta)
        cases += 1
    except Exception as e:
        fails.append(dict(what='readonly:call failed on read-only input', detail=repr(e)[:300], input=dict(seed=seed)))
    if not np.array_equal(data, snap):
        fails.append(dict(what='readonly:single front end modified its input', detail='', input=dict(seed=seed)))

    # writable inputs, ordinary and degenerate (non-finite entries, vector-valued hyper-parameters, integer data): whether
    # the call returns or raises, every caller-owned array must be byte-identical afterwards
    def same_bytes(a, b):
        return a.dtype == b.dtype and a.shape == b.shape and a.tobytes() == b.tobytes()

    def guarded(label, fn, arrays, *a, **k):
        nonlocal cases
        snaps = [x.copy() for x in arrays]
        try:
            random.seed(seed)
            np.random.seed(seed)
            quiet(fn, *a, **k)
        except Exception:
            pass
        cases += 1
        for x, s0 in zip(arrays, snaps):
            if not same_bytes(x, s0):
                fails.append(dict(what='readonly:caller-owned array modified', detail=label, input=dict(seed=seed, call=label)))
                break
    kw = dict(window_size=2, num_clusters=2, iteration_limit=2, min_cluster_size=3)
    for order in ('C', 'F'):
        for bad in (np.nan, np.inf):
            S = np.array(spd(rng, 4, 0.5, 2.0), order=order)
            S[1, 2] = S[2, 1] = bad
            guarded('admm_optimize_theta(covariance with a %s entry, %s order)' % (bad, order), A.admm_optimize_theta, [S], S, 0.1, 2, 2)
    S = np.full((4, 4), np.nan)
    guarded('admm_optimize_theta(all-NaN covariance of a single-point cluster)', A.admm_optimize_theta, [S], S, 0.1, 2, 2)
    S, lam = spd(rng, 4, 0.5, 2.0), np.full((4, 4), 0.1)
    guarded('admm_optimize_theta(matrix lambda)', A.admm_optimize_theta, [S, lam], S, lam, 2, 2)
    d1, d2 = synthetic(rng, 60, 2), synthetic(rng, 45, 2)
    beta_vec = np.full(d1.shape[0] - 1 + d2.shape[0] - 1, 4.0)
    guarded('ticc_joint_labels(vector switching cost)', fast_ticc.ticc_joint_labels, [d1, d2, beta_vec], [d1, d2], label_switching_cost=beta_vec, **kw)
    d3 = synthetic(rng, 70, 2)
    beta1 = np.full(d3.shape[0] - 1, 4.0)
    lam4 = np.full((4, 4), 0.11)
    guarded('ticc_labels(vector switching cost, matrix lambda)', fast_ticc.ticc_labels, [d3, beta1, lam4], d3, label_switching_cost=beta1,
            sparsity_weight=lam4, **kw)
    d4 = synthetic(rng, 70, 2)
    d4[10, 1] = np.nan
    guarded('ticc_labels(data with a NaN)', fast_ticc.ticc_labels, [d4], d4, label_switching_cost=3, **kw)
    d5 = (synthetic(rng, 70, 2) * 10).astype(np.int64)
    guarded('ticc_labels(integer data)', fast_ticc.ticc_labels, [d5], d5, label_switching_cost=3, **kw)
    cost = rng.standard_normal((6, 3))
    cost[2, 1] = np.inf
    bvec = np.full(6, 1.0)
    guarded('assign_point_cluster_labels(inf cost, vector beta)', cla.assign_point_cluster_labels, [cost, bvec], cost, bvec)
    return dict(kind='bounded', name='readonly_inputs', cases=cases, failing=fails,
                bound='both front ends, the optimiser entry point (matrix lambda) and the kernel (vector beta) called once with writeable=False '
                      'inputs (C and F order); 11 further calls with writable ordinary and degenerate inputs (NaN/inf entries, vector beta, matrix '
                      'lambda, integer data) compared byte for byte afterwards, whether the call returned or raised')


# ------------------------------------------------------------------ C20: fault injection
_FI = dict(counter=None, target=-1, orig=None, exc=ValueError)


class InjectedIndexError(IndexError):
    pass


class InjectedAttributeError(AttributeError):
    pass


class InjectedKeyError(KeyError):
    pass


class InjectedArithmeticError(ArithmeticError):
    pass


_FAULT_TYPES = [ValueError, InjectedIndexError, InjectedAttributeError, InjectedKeyError, InjectedArithmeticError, TypeError]


def _failing_task(*a, **k):
    # module level so that Pool.apply_async can pickle it by name; the counter is inherited by forked workers
    counter = _FI['counter']
    with counter.get_lock():
        counter.value += 1
        n = counter.value
    if n == _FI['target'] + 1:
        raise _FI['exc']("injected fault at optimisation task %d" % _FI['target'])
    return _FI['orig'](*a, **k)


def fault_injection(tier, seed):
    import fast_ticc
    from fast_ticc import admm as A
    from fast_ticc import graphical_lasso
    rng = np.random.default_rng(seed)
    data = synthetic(rng, 80, 2)
    kw = dict(window_size=1, num_clusters=2, label_switching_cost=3, iteration_limit=3, min_cluster_size=3)

    def clean():
        random.seed(seed)
        np.random.seed(seed)
        return quiet(fast_ticc.ticc_labels, data, **kw)
    ref = clean()
    fails, cases = [], 0
    orig = A.admm_optimize_theta
    targets = [0, 1, 2, 3] if tier == 'quick' else list(range(6))
    for mp_on in ([False, True] if tier == 'thorough' else [False]):
        if mp_on:
            os.environ['CUPCAKE_ENABLE_MULTIPROCESSING'] = '1'
        else:
            os.environ.pop('CUPCAKE_ENABLE_MULTIPROCESSING', None)
        for target in targets:
            counter = multiprocessing.Value('i', 0)
            exc_type = _FAULT_TYPES[(target + (3 if mp_on else 0)) % len(_FAULT_TYPES)]
            _FI.update(counter=counter, target=target, orig=orig, exc=exc_type)
            failing = _failing_task
            A.admm_optimize_theta = failing
            graphical_lasso.admm.admm_optimize_theta = failing
            t0 = time.time()
            try:
                random.seed(seed)
                np.random.seed(seed)
                if target % 2:
                    quiet(fast_ticc.ticc_joint_labels, [data[:40], data[40:]], num_processors=2 if mp_on else 1, **kw)
                else:
                    quiet(fast_ticc.ticc_labels, data, num_processors=2 if mp_on else 1, **kw)
                if counter.value > target:
                    fails.append(dict(what='fault:call returned a result after a failed task', detail='task %d' % target,
                                      input=dict(seed=seed, task=target, multiprocessing=mp_on)))
            except Exception as e:
                if type(e) is not exc_type or 'injected fault' not in str(e):
                    fails.append(dict(what='fault:original error replaced', detail='%s injected, %s surfaced' % (exc_type.__name__, repr(e)[:160]),
                                      input=dict(task=target, multiprocessing=mp_on, exception=exc_type.__name__)))
            finally:
                A.admm_optimize_theta = orig
                graphical_lasso.admm.admm_optimize_theta = orig
            cases += 1
            if time.time() - t0 > 120:
                fails.append(dict(what='fault:call took longer than 120 s', detail='', input=dict(task=target)))
            kids = multiprocessing.active_children()
            if kids:
                fails.append(dict(what='fault:worker process left behind', detail='%d alive' % len(kids), input=dict(task=target, multiprocessing=mp_on)))
            after = clean()
            if after.point_labels != ref.point_labels or after.label_assignment_cost != ref.label_assignment_cost:
                fails.append(dict(what='fault:a later clean call differs from the reference', detail='', input=dict(task=target)))
    os.environ.pop('CUPCAKE_ENABLE_MULTIPROCESSING', None)
    # wrong-kind inputs
    for fn, arg, other in ((fast_ticc.ticc_labels, [data, data], 'ticc_joint_labels'), (fast_ticc.ticc_joint_labels, [data[:, 0], data[:, 1]], 'ticc_labels')):
        try:
            quiet(fn, arg, **kw)
            fails.append(dict(what='fault:wrong-kind input accepted', detail=fn.__name__, input={}))
        except TypeError as e:
            if other not in str(e):
                fails.append(dict(what='fault:TypeError does not name the right entry point', detail=str(e)[:200], input={}))
        except Exception as e:
            fails.append(dict(what='fault:wrong-kind input raised %s' % type(e).__name__, detail=repr(e)[:200], input={}))
        cases += 1
    return dict(kind='bounded', name='fault_injection', cases=cases, failing=fails,
                bound='an exception (ValueError, IndexError, AttributeError, KeyError, ArithmeticError, TypeError in turn) injected at optimisation task number %s of a 3-round run (single process%s), each followed by a clean call; wrong-kind input to both front ends; 120 s wall-clock limit per call'
                      % (targets, ' and 2-process pool' if tier == 'thorough' else ''))


CHECKS = dict(admm=admm, end_to_end=end_to_end, reproducibility=reproducibility, jit_differential=jit_differential,
              readonly_inputs=readonly_inputs, fault_injection=fault_injection, phase_trace=phase_trace, forms_equivalence=forms_equivalence, chi_members=chi_members)

if __name__ == '__main__':
    name, tier, seed = sys.argv[1], sys.argv[2], int(sys.argv[3])
    t0 = time.time()
    try:
        out = CHECKS[name](tier, seed)
    except Exception as e:
        import traceback
        out = dict(kind='bounded', name=name, cases=0, failing=[], error=repr(e)[:300], tb=traceback.format_exc()[-1200:])
    out['wall_s'] = round(time.time() - t0, 1)
    print(json.dumps(out, default=str))
