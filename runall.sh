#!/bin/bash
# runs every property's quick check and prints a one-line summary each
cd "$(dirname "$0")"
for p in C01 C02 C03 C04 C05 C06 C07 C08 C09 C10 C11 C12 C13 C14 C15 C16 C17 C18 C19 C20; do
  s=$(date +%s); out=$(./check $p --tier ${1:-quick} 2>&1); rc=$?; e=$(date +%s)
  echo "$p rc=$rc $((e-s))s $(echo "$out" | grep -E '^(OK|VIOLATION|UNDECIDED|CHECKER)' | head -3 | cut -c1-200)"
done
