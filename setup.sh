#!/bin/bash
# offline sanity: nothing is compiled or cached; every check re-reads /repo/src on each run
set -e
python3-vt -c "import z3; assert z3.get_version_string()"
/venv/bin/python -c "import numpy, sys; sys.path.insert(0, '/repo/src'); import fast_ticc"
test -x /usr/bin/cvc5
mkdir -p /verif/evidence /verif/replays
echo setup-ok
