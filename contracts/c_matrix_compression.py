"""Contracts: fast_ticc.matrix_compression  (C11; used by C02, C03)"""
from pyvc.spec import contract, specfn, lemma

M = 'fast_ticc.matrix_compression.'

contract(M + '_full_matrix_size', props=['C11'],
         params=dict(flattened_size='int'), returns='int',
         # flattened_size is a triangular number n(n+1)/2
         requires=["exists(lambda n: n >= 0 and 2*flattened_size == n*(n+1))"],
         ensures=["result >= 0", "2*flattened_size == result*(result+1)"])

# cached wrapper of np.triu_indices: its contract is the assumed numpy contract, re-exported
contract(M + '_upper_triangle_indices', props=['C11'],
         params=dict(size='int'), returns='tuple[list[int],list[int]]',
         requires=["size >= 0"],
         ensures=["2*len(result[0]) == size*(size+1)", "len(result[1]) == len(result[0])",
                  "forall(lambda r, c: implies(0 <= r and r <= c and c < size, "
                  "result[0][tri_rank(r, c, size)] == r and result[1][tri_rank(r, c, size)] == c and "
                  "0 <= tri_rank(r, c, size) and tri_rank(r, c, size) < len(result[0])))",
                  "forall(0, len(result[0]), lambda q: 0 <= result[0][q] and result[0][q] <= result[1][q] and "
                  "result[1][q] < size and tri_rank(result[0][q], result[1][q], size) == q)"])

contract(M + 'compress_matrix', props=['C11', 'C02'],
         params=dict(full_matrix='arr2[real]'), returns='arr1[real]',
         raises={'RuntimeError': "full_matrix.shape[0] != full_matrix.shape[1]"},
         ensures=["2*result.shape[0] == full_matrix.shape[0]*(full_matrix.shape[0]+1)",
                  "forall(lambda r, c: implies(0 <= r and r <= c and c < full_matrix.shape[0], "
                  "result[tri_rank(r, c, full_matrix.shape[0])] == full_matrix[r, c]))",
                  "fresh(result)"])

contract(M + '_uncompress_upper_triangle', props=['C11'], ghost={'mode': 'lambda'},
         params=dict(compressed_tri='arr1[real]'), returns='arr2[real]',
         requires=["exists(lambda n: n >= 0 and 2*compressed_tri.shape[0] == n*(n+1))"],
         ensures=["result.shape[0] == result.shape[1]", "result.shape[0] >= 0",
                  "2*compressed_tri.shape[0] == result.shape[0]*(result.shape[0]+1)",
                  "forall(lambda r, c: implies(0 <= r and r <= c and c < result.shape[0], "
                  "result[r, c] == compressed_tri[tri_rank(r, c, result.shape[0])]))",
                  "forall(lambda r, c: implies(0 <= c and c < r and r < result.shape[0], result[r, c] == 0))",
                  "fresh(result)"])

contract(M + '_upper_to_full', props=['C11', 'C03'],
         params=dict(upper_tri='arr2[real]'), returns='arr2[real]',
         requires=["upper_tri.shape[0] == upper_tri.shape[1]"],
         ensures=["result.shape[0] == upper_tri.shape[0]", "result.shape[1] == upper_tri.shape[0]",
                  "forall(lambda i, j: implies(0 <= i and i < upper_tri.shape[0] and 0 <= j and j < upper_tri.shape[0], "
                  "result[i, j] == upper_tri[i, j] + upper_tri[j, i] - ite(i == j, upper_tri[i, i], 0)))",
                  "fresh(result)"])

specfn('imin', "lambda a, b: ite(a <= b, a, b)")
specfn('imax', "lambda a, b: ite(a <= b, b, a)")

contract(M + 'reinflate_matrix', props=['C11', 'C02', 'C03'],
         params=dict(compressed_utri='arr1[real]'), returns='arr2[real]',
         requires=["exists(lambda n: n >= 0 and 2*compressed_utri.shape[0] == n*(n+1))"],
         ensures=["result.shape[0] == result.shape[1]", "result.shape[0] >= 0",
                  "2*compressed_utri.shape[0] == result.shape[0]*(result.shape[0]+1)",
                  # every cell is the compressed entry of its upper-triangle mirror
                  ("cell-upper", "forall(lambda i, j: implies(0 <= i and i <= j and j < result.shape[0], "
                   "result[i, j] == compressed_utri[tri_rank(i, j, result.shape[0])]))"),
                  ("cell-lower", "forall(lambda i, j: implies(0 <= j and j < i and i < result.shape[0], "
                   "result[i, j] == compressed_utri[tri_rank(j, i, result.shape[0])]))"),
                  ("symmetric", "forall(lambda i, j: implies(0 <= i and i < result.shape[0] and 0 <= j and j < result.shape[0], "
                   "result[i, j] == result[j, i]))"),
                  "fresh(result)"])
