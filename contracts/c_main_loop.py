"""Contracts: predict_cluster_labels, fast_ticc.main_loop  (C09, C06, C04, C05, C13, C14, C20)"""
from pyvc.spec import contract, specfn, classschema
from contracts import c_label_assignment as LA

L = 'fast_ticc.cluster_label_assignment.'
ML = 'fast_ticc.main_loop.'

# ASSUMED (scikit-learn): GaussianMixture.fit/predict returns one label in [0, K) per row; consumes the NumPy global RNG;
# does not write its argument.  Every component receives a point -- otherwise the first statistics phase stops the run
# with its own `assert cluster.size > 0` (outside "runs that complete").
contract(L + 'build_initial_clusters', props=['C09', 'C14', 'C04'], trusted=True,
         params=dict(num_clusters='int', training_data='arr2[real]'), returns='list[int]',
         requires=["num_clusters >= 1"],
         ensures=["fresh(result)", "len(result) == training_data.shape[0]",
                  "forall(0, len(result), lambda p: 0 <= result[p] and result[p] < num_clusters)", "unchanged(training_data)"],
         effects=['reads_numpy_global_rng'])

_KC = "len(model.clusters)"
_TBL = ("forall(lambda p, c: implies(0 <= p and p < test_data.shape[0] and 0 <= c and c < " + _KC + ", TABLE[p, c] == "
        "-gauss_ll(test_data[p, :], model.clusters[c].stacked_data_mean, model.clusters[c].train_inverse, "
        "logdet(model.clusters[c].train_inverse), test_data.shape[1])))")


def _sub(clause):
    """kernel clause -> the same clause about the locals of predict_cluster_labels"""
    return (clause.replace('label_assignment_cost', 'TABLE').replace('result[0]', 'result._point_labels')
            .replace('result[1]', 'result.TABLE_COST'))


contract(L + 'predict_cluster_labels', props=['C09', 'C01', 'C05', 'C06', 'C13', 'C19'],
         params=dict(model='obj:ModelState', test_data='arr2[real]'), returns='obj:ModelState',
         requires=["wf(model)", ("typestate:mrfs-optimised", "model._phase == 3"),
                   "model.arguments.window_size >= 1", "stacked_ok(test_data, model.arguments.window_size)",
                   "test_data.shape[0] >= 1", "len(model.clusters) >= 1 and len(model.clusters) <= 65536",
                   "model.arguments.label_switching_cost >= 0",
                   "forall(0, " + _KC + ", lambda k: not isnone(model.clusters[k].stacked_data_mean) and not isnone(model.clusters[k].train_inverse) and "
                   "model.clusters[k].stacked_data_mean.shape[0] == test_data.shape[1] and "
                   "model.clusters[k].train_inverse.shape[0] == test_data.shape[1] and "
                   "model.clusters[k].train_inverse.shape[1] == test_data.shape[1] and is_spd(model.clusters[k].train_inverse))"],
         # the two derived cache fields of the state given are refreshed (not labelling, membership or fitted statistics)
         assigns=['model.clusters[*].inverse_covariance', 'model.clusters[*].log_determinant'],
         ghost={'native_ensures': [
                    ("native:cost-is-assignment-plus-switching-cost-of-the-returned-labels",
                     "result.label_assignment_cost == path_total(neg_ll_table(model, test_data), model.arguments.label_switching_cost, result.point_labels)"),
                    ("native:labels-minimise-over-all-K^T-sequences",
                     "len(model.clusters) ** test_data.shape[0] > 4000 or all(result.label_assignment_cost <= "
                     "path_total(neg_ll_table(model, test_data), model.arguments.label_switching_cost, q) + 1e-7 "
                     "for q in all_sequences(test_data.shape[0], len(model.clusters)))")],
                'cumulative_posts': True,
                'returns': dict(TABLE='label_assignment_cost', F='ghost_assign_point_cluster_labels_F',
                                P='ghost_assign_point_cluster_labels_P', B='ghost_assign_point_cluster_labels_B', COST='cost'),
                'return_kinds': dict(TABLE='arr2[real]', F='arr2[real]', P='arr2[int]', B='arr1[real]', COST='real'),
                'comps': {1: dict(kind='list[obj:ClusterParameters]',
                                  lemmas_end=["members_ok(model.clusters[_k]._member_points, model._point_labels, _k)",
                                              "ascending(model.clusters[_k]._member_points)",
                                              "eqcontent(_comp1[_k]._member_points, model.clusters[_k]._member_points)",
                                              "members_ok(_comp1[_k]._member_points, model._point_labels, _k)"],
                                  inv=["len(_comp1) == _k",
                                       "forall(0, _k, lambda k: members_ok(_comp1[k]._member_points, model._point_labels, k))",
                                       "forall(0, _k, lambda k: fresh(_comp1[k]) and allocated(_comp1[k]) and fresh(_comp1[k]._member_points) and "
                                       "not same(_comp1[k]._member_points, _comp1))",
                                       "forall(lambda k1, k2: implies(0 <= k1 and k1 < k2 and k2 < _k, not same(_comp1[k1], _comp1[k2])))",
                                       "forall(0, _k, lambda k: fresh(_comp1[k].train_inverse) and fresh(_comp1[k].computed_covariance) and "
                                       "fresh(_comp1[k].stacked_data_mean) and fresh(_comp1[k].empirical_covariance))",
                                       "forall(0, _k, lambda k: eqcontent(_comp1[k].train_inverse, model.clusters[k].train_inverse) and "
                                       "eqcontent(_comp1[k].stacked_data_mean, model.clusters[k].stacked_data_mean) and "
                                       "eqcontent(_comp1[k].empirical_covariance, model.clusters[k].empirical_covariance) and "
                                       "eqcontent(_comp1[k].computed_covariance, model.clusters[k].computed_covariance))",
                                       "forall(0, _k, lambda k: fresh(_comp1[k].inverse_covariance) and "
                                       "eqcontent(_comp1[k].inverse_covariance, model.clusters[k].inverse_covariance) and "
                                       "_comp1[k].log_determinant == model.clusters[k].log_determinant)"])}},
         ensures=["fresh(result)", "fresh(result.clusters)", "len(result.clusters) == " + _KC, "same(result.arguments, model.arguments)",
                  ("cost-table-is-minus-the-log-likelihood-under-the-models-means-and-MRFs", _TBL),
                  ("one-label-per-point-in-range", "len(result._point_labels) == test_data.shape[0] and "
                   "forall(0, test_data.shape[0], lambda t: 0 <= result._point_labels[t] and result._point_labels[t] < " + _KC + ")"),
                  ("reported-cost-is-the-kernels", "result.label_assignment_cost == COST"),
                  # the Bellman facts of the kernel, about THIS cost table and THESE labels (feed the optimality lemmas)
                  ("kernel:beta-broadcast", "forall(0, test_data.shape[0], lambda t: B[t] == model.arguments.label_switching_cost)"),
                  ("kernel:bellman-last-row", _sub(LA._LAST.format(T="TABLE.shape[0]", K="TABLE.shape[1]", F='F'))),
                  ("kernel:bellman-attained", _sub(LA._ATT.format(T="TABLE.shape[0]", K="TABLE.shape[1]", F='F', P='P', B='B', lo='-1'))),
                  ("kernel:bellman-lower-bound", _sub(LA._LB.format(T="TABLE.shape[0]", K="TABLE.shape[1]", F='F', P='P', B='B', lo='-1'))),
                  ("kernel:first-label-minimises", "forall(lambda c: implies(0 <= c and c < TABLE.shape[1], "
                   "F[0, result._point_labels[0]] + TABLE[0, result._point_labels[0]] <= F[0, c] + TABLE[0, c]))"),
                  ("kernel:path-follows-table", "forall(lambda t: implies(0 <= t and t <= TABLE.shape[0] - 2, "
                   "result._point_labels[t + 1] == P[t, result._point_labels[t]]))"),
                  ("kernel:cost-is-table-entry", "COST == F[0, result._point_labels[0]] + TABLE[0, result._point_labels[0]]"),
                  ("scored-model-is-carried-into-the-new-state", "forall(0, " + _KC + ", lambda k: fresh(result.clusters[k]) and "
                   "eqcontent(result.clusters[k].train_inverse, model.clusters[k].train_inverse) and "
                   "eqcontent(result.clusters[k].stacked_data_mean, model.clusters[k].stacked_data_mean) and "
                   "eqcontent(result.clusters[k].empirical_covariance, model.clusters[k].empirical_covariance) and "
                   "fresh(result.clusters[k].train_inverse) and fresh(result.clusters[k].computed_covariance))"),
                  ("wf:K-clusters", "len(result.clusters) == result.arguments.num_clusters"),
                  ("wf:distinct", "distinct_clusters(result)"),
                  ("wf:membership", "membership_ok(result)"),
                  ("result-scores-with-the-same-precision-and-logdet-as-the-table", "forall(0, " + _KC + ", lambda k: "
                   "eqcontent(result.clusters[k].inverse_covariance, model.clusters[k].train_inverse) and "
                   "result.clusters[k].log_determinant == logdet(model.clusters[k].train_inverse) and "
                   "not isnone(result.clusters[k].inverse_covariance) and not isnone(result.clusters[k].stacked_data_mean))"),
                  ("result-is-well-formed", "wf(result)"),
                  ("everything-reachable-from-the-result-exists-now", "allocated(result) and allocated(result.clusters) and allocated(result._point_labels) and "
                   "forall(0, " + _KC + ", lambda k: allocated(result.clusters[k]) and allocated(result.clusters[k]._member_points) and "
                   "allocated(result.clusters[k].train_inverse) and allocated(result.clusters[k].computed_covariance) and "
                   "allocated(result.clusters[k].stacked_data_mean) and allocated(result.clusters[k].empirical_covariance))"),
                  ("state-given-keeps-its-labelling-membership-and-statistics", "unchanged(model, model.clusters, model._point_labels, test_data) and "
                   "forall(0, " + _KC + ", lambda k: unchanged(model.clusters[k]._member_points) and "
                   "same(model.clusters[k].train_inverse, old(model.clusters[k].train_inverse)) and "
                   "same(model.clusters[k].empirical_covariance, old(model.clusters[k].empirical_covariance)) and "
                   "same(model.clusters[k].stacked_data_mean, old(model.clusters[k].stacked_data_mean)) and "
                   "same(model.clusters[k].computed_covariance, old(model.clusters[k].computed_covariance)) and "
                   "same(model.clusters[k]._member_points, old(model.clusters[k]._member_points)))"),
                  ("def:typestate", "result._phase == 4")])

AR = 'fast_ticc.containers.arguments.'
contract(AR + 'UserArguments.print', props=['C19'], params=dict(self='obj:UserArguments', out='opaque:stream'),
         ghost={'nullable': ['out']}, ensures=["unchanged(self)"])

contract(ML + '_init_task_pool', props=['C14', 'C20'], params=dict(num_processes='int'), returns='opaque:pool',
         # the pool size is the only thing that depends on num_processes and on the environment switch
         ghost={'sets': {'_pool_created': 'True', '_pool_closed': 'False', '_pool_joined': 'False'}},
         ensures=["fresh(result)", ("pool-created-and-open", "_pool_created and not _pool_closed")], effects=['reads_environment'])

_RES_FIELDS = dict(bayesian_information_criterion='real', calinski_harabasz_index='real', label_assignment_cost='real',
                   overall_log_likelihood='real', overall_log_likelihood_mean='real', overall_log_likelihood_median='real',
                   cluster_log_likelihood_mean='arr1[real]', cluster_log_likelihood_median='arr1[real]',
                   all_log_likelihood='list[real]', markov_random_fields='list[arr2[real]]', num_clusters='int',
                   point_labels='list[int]', window_size='int')
classschema('SingleDataSeriesResult', 'fast_ticc.containers.results.SingleDataSeriesResult', _RES_FIELDS)
classschema('MultipleDataSeriesResult', 'fast_ticc.containers.results.MultipleDataSeriesResult',
            dict(_RES_FIELDS, point_labels='list[list[int]]'))

_LL = ("gauss_ll(stacked_training_data[p, :], model.clusters[{k}].stacked_data_mean, model.clusters[{k}].inverse_covariance, "
       "model.clusters[{k}].log_determinant, model.arguments.window_size * (stacked_training_data.shape[1] / model.arguments.window_size))")
_LB = "model._point_labels"
contract(ML + '_compute_log_likelihood_by_cluster', props=['C06', 'C05', 'C19'],
         params=dict(stacked_training_data='arr2[real]', model='obj:ModelState'), returns='list[list[real]]',
         requires=["wf(model)", "model.arguments.window_size >= 1", "len(model._point_labels) == stacked_training_data.shape[0]",
                   "forall(0, len(model.clusters), lambda k: not isnone(model.clusters[k].stacked_data_mean) and "
                   "not isnone(model.clusters[k].inverse_covariance) and model.clusters[k].stacked_data_mean.shape[0] == stacked_training_data.shape[1] "
                   "and model.clusters[k].inverse_covariance.shape[0] == stacked_training_data.shape[1] and "
                   "model.clusters[k].inverse_covariance.shape[1] == stacked_training_data.shape[1])"],
         ghost={'comps': {1: dict(kind='list[list[real]]',
                                  inv=["len(_comp1) == i", "forall(0, i, lambda k: fresh(_comp1[k]) and allocated(_comp1[k]) and len(_comp1[k]) == 0 "
                                       "and not same(_comp1[k], _comp1))",
                                       "forall(lambda k1, k2: implies(0 <= k1 and k1 < k2 and k2 < i, not same(_comp1[k1], _comp1[k2])))"])}},
         ensures=["fresh(result)", "len(result) == len(model.clusters)",
                  ("inner-lists-are-fresh-and-exist", "forall(0, len(result), lambda k: fresh(result[k]) and allocated(result[k]) and not same(result[k], result))"),
                  # exactly one entry per labelled point: cluster k's list has one entry for every point labelled k, in point order
                  ("one-entry-per-point-labelled-k", "forall(0, len(result), lambda k: len(result[k]) == cnt(" + _LB + ", k, len(" + _LB + ")))"),
                  ("entry-is-that-points-log-likelihood-under-its-own-cluster", "forall(lambda k, p: implies(0 <= k and k < len(result) and "
                   "0 <= p and p < len(" + _LB + ") and " + _LB + "[p] == k, result[k][cnt(" + _LB + ", k, p)] == " + _LL.format(k='k') + "))"),
                  "unchanged(stacked_training_data, model)"],
         loops={1: dict(inv=["len(cluster_log_likelihood) == len(model.clusters)",
                             "forall(0, len(cluster_log_likelihood), lambda k: allocated(cluster_log_likelihood[k]) and fresh(cluster_log_likelihood[k]) "
                             "and not same(cluster_log_likelihood[k], cluster_log_likelihood))",
                             "forall(lambda k1, k2: implies(0 <= k1 and k1 < k2 and k2 < len(cluster_log_likelihood), "
                             "not same(cluster_log_likelihood[k1], cluster_log_likelihood[k2])))",
                             "forall(0, len(cluster_log_likelihood), lambda k: len(cluster_log_likelihood[k]) == cnt(" + _LB + ", k, _k))",
                             "forall(lambda k, p: implies(0 <= k and k < len(cluster_log_likelihood) and 0 <= p and p < _k and " + _LB + "[p] == k, "
                             "cnt(" + _LB + ", k, p) < cnt(" + _LB + ", k, _k) and "
                             "cluster_log_likelihood[k][cnt(" + _LB + ", k, p)] == " + _LL.format(k='k') + "))"],
                        modifies=['cluster_log_likelihood[*]'])})


_CUR = "current_model_state"
_UA_OK = ["user_args.iteration_limit > 0", "user_args.num_clusters >= 2 and user_args.num_clusters <= 65536",
          "user_args.window_size >= 1", "user_args.min_cluster_size >= 1", "user_args.sparsity_weight >= 0",
          "user_args.label_switching_cost >= 0", "stacked_ok(stacked_training_data, user_args.window_size)",
          # C17/C04 are stated for runs with more windows than clusters (the CHI normalisation divides by T - K)
          ("restricts:more-windows-than-clusters", "stacked_training_data.shape[0] > user_args.num_clusters"),
          "stacked_training_data.shape[1] < 67108864",
          # spectral-calculus link (trusted mathematics, see x_update_prox): what a worker returns re-inflates to an SPD matrix
          "forall(lambda t, x_e: spd_compressed_task(t, x_e))"]

contract(ML + 'fit_stacked_data', props=['C09', 'C04', 'C06', 'C13', 'C14', 'C20', 'C19'],
         params=dict(user_args='obj:UserArguments', stacked_training_data='arr2[real]'), returns='obj:SingleDataSeriesResult',
         requires=_UA_OK,
         raises={'WorkerError': None, 'RuntimeError': None},
         ghost={'kind:previous_iteration_point_labels': 'list[int]', 'cumulative_posts': True,
                'returns': dict(FINAL='current_model_state', rounds='rounds', stopped='stopped', PREV='previous_iteration_point_labels',
                                CLL='cluster_log_likelihood'),
                'return_kinds': dict(FINAL='obj:ModelState', rounds='int', stopped='bool', PREV='list[int]', CLL='list[list[real]]'),
                'xensures': {'WorkerError': [("pool-released-on-failure", "_pool_closed"),
                                             ("caller-data-untouched", "unchanged(stacked_training_data, user_args)")],
                             'RuntimeError': [("pool-released-on-failure", "_pool_closed"),
                                              ("caller-data-untouched", "unchanged(stacked_training_data, user_args)")]}},
         ensures=[("at-least-one-and-at-most-limit-rounds", "1 <= rounds and rounds <= user_args.iteration_limit"),
                  ("stops-early-only-at-a-fixed-point", "stopped or rounds == user_args.iteration_limit"),
                  ("fixed-point-means-two-consecutive-rounds-agree", "implies(stopped, eqcontent(PREV, FINAL._point_labels))"),
                  ("final-state-was-scored-last", "FINAL._phase == 4 and wf(FINAL)"),
                  ("no-result-after-a-worker-failure", "not _any_task_failed"),
                  ("pool-released", "_pool_created and _pool_closed and _pool_joined"),
                  ("labels-are-the-final-states", "not isnone(result.point_labels) and fresh(result.point_labels) and "
                   "len(result.point_labels) == stacked_training_data.shape[0] and "
                   "forall(0, len(result.point_labels), lambda p: result.point_labels[p] == FINAL._point_labels[p])"),
                  ("labels-in-range", "forall(0, len(result.point_labels), lambda p: 0 <= result.point_labels[p] and "
                   "result.point_labels[p] < user_args.num_clusters)"),
                  ("cost-is-the-final-states", "result.label_assignment_cost == FINAL.label_assignment_cost"),
                  ("K-mrfs-of-the-final-state", "len(result.markov_random_fields) == user_args.num_clusters and "
                   "forall(0, user_args.num_clusters, lambda k: same(result.markov_random_fields[k], FINAL.clusters[k].train_inverse))"),
                  ("echoes-K-and-W", "result.num_clusters == user_args.num_clusters and result.window_size == user_args.window_size"),
                  # accounting (C06): the per-point list is the concatenation of the per-cluster lists, aggregates are taken over exactly it
                  ("per-point-list-is-the-concatenation:start", "chain_offset(result.all_log_likelihood, 0) == 0"),
                  ("per-point-list-is-the-concatenation:length", "len(result.all_log_likelihood) == chain_offset(result.all_log_likelihood, len(CLL))"),
                  ("per-point-list-is-the-concatenation:offsets", "forall(0, len(CLL), lambda k: chain_offset(result.all_log_likelihood, k + 1) == "
                   "chain_offset(result.all_log_likelihood, k) + len(CLL[k]))"),
                  ("per-point-list-is-the-concatenation:entries", "forall(lambda k, j: implies(0 <= k and k < len(CLL) and 0 <= j and j < len(CLL[k]), "
                   "result.all_log_likelihood[chain_offset(result.all_log_likelihood, k) + j] == CLL[k][j]))"),
                  ("per-cluster-lists-have-one-entry-per-point-labelled-k", "len(CLL) == user_args.num_clusters and "
                   "forall(0, len(CLL), lambda k: len(CLL[k]) == cnt(FINAL._point_labels, k, len(FINAL._point_labels)))"),
                  ("overall-aggregates-over-exactly-that-list", "result.overall_log_likelihood == sum_of(result.all_log_likelihood) and "
                   "result.overall_log_likelihood_mean == mean_of(result.all_log_likelihood) and "
                   "result.overall_log_likelihood_median == median_of(result.all_log_likelihood)"),
                  ("cluster-aggregates-over-that-clusters-points-or-zero", "result.cluster_log_likelihood_mean.shape[0] == len(CLL) and "
                   "forall(0, len(CLL), lambda k: result.cluster_log_likelihood_mean[k] == ite(len(CLL[k]) > 0, mean_of(CLL[k]), 0) and "
                   "result.cluster_log_likelihood_median[k] == ite(len(CLL[k]) > 0, median_of(CLL[k]), 0))"),
                  "fresh(result)", "unchanged(stacked_training_data, user_args)"],
         loops={1: dict(ghost={'rounds': '0', 'stopped': 'False'}, ghost_update={'rounds': 'rounds + 1'},
                        ghost_break={'rounds': 'rounds + 1', 'stopped': 'True'},
                        inv=["rounds == current_iteration", "not stopped", "not _any_task_failed",
                             "_pool_created and not _pool_closed and not _pool_joined",
                             "wf(" + _CUR + ")", "closed_model(" + _CUR + ")", "fresh(" + _CUR + ")", "same(" + _CUR + ".arguments, user_args)",
                             "len(" + _CUR + "._point_labels) == stacked_training_data.shape[0]",
                             _CUR + "._phase == ite(current_iteration == 0, 0, 4)",
                             "implies(current_iteration > 0, forall(0, len(" + _CUR + ".clusters), lambda k: "
                             "not isnone(" + _CUR + ".clusters[k].computed_covariance) and not isnone(" + _CUR + ".clusters[k].train_inverse)))",
                             "implies(current_iteration > 0, forall(0, len(" + _CUR + ".clusters), lambda k: "
                             "not isnone(" + _CUR + ".clusters[k].stacked_data_mean) and not isnone(" + _CUR + ".clusters[k].inverse_covariance) and "
                             "not isnone(" + _CUR + ".clusters[k].empirical_covariance) and "
                             + _CUR + ".clusters[k].stacked_data_mean.shape[0] == stacked_training_data.shape[1] and "
                             + _CUR + ".clusters[k].train_inverse.shape[0] == stacked_training_data.shape[1] and "
                             + _CUR + ".clusters[k].train_inverse.shape[1] == stacked_training_data.shape[1] and "
                             + _CUR + ".clusters[k].inverse_covariance.shape[0] == stacked_training_data.shape[1] and "
                             + _CUR + ".clusters[k].inverse_covariance.shape[1] == stacked_training_data.shape[1] and "
                             + _CUR + ".clusters[k].empirical_covariance.shape[0] == stacked_training_data.shape[1] and "
                             + _CUR + ".clusters[k].empirical_covariance.shape[1] == stacked_training_data.shape[1]))",
                             "implies(current_iteration > 0, not isnone(previous_iteration_point_labels) and "
                             "eqcontent(previous_iteration_point_labels, " + _CUR + "._point_labels))",
                             "implies(current_iteration == 0, isnone(previous_iteration_point_labels))"],
                        modifies=[]),
                2: dict(inv=["len(labels) == num_data_points", "forall(0, i, lambda p: labels[p] == " + _CUR + "._point_labels[p])"],
                        modifies=['labels'])})

specfn('neg_ll_table', native="lambda model, X: np.array([[-gauss_ll(X[p], c.stacked_data_mean, c.train_inverse, "
       "float(np.linalg.slogdet(c.train_inverse)[1]), X.shape[1]) for c in model.clusters] for p in range(X.shape[0])])")
