"""Contracts: predict_cluster_labels, fast_ticc.main_loop  (C09, C06, C04, C05, C13, C14, C20)"""
from pyvc.spec import contract, specfn, classschema
from contracts import c_label_assignment as LA

L = 'fast_ticc.cluster_label_assignment.'
ML = 'fast_ticc.main_loop.'

# ASSUMED (scikit-learn): GaussianMixture.fit/predict returns one label in [0, K) per row; consumes the NumPy global RNG;
# does not write its argument.  Every component receives a point -- otherwise the first statistics phase stops the run
# with its own `assert cluster.size > 0` (outside "runs that complete").
contract(L + 'build_initial_clusters', props=['C09', 'C14', 'C04'], trusted=True,
         params=dict(num_clusters='int', training_data='arr2[real]'), returns='list[int]',
         requires=["num_clusters >= 1"],
         ensures=["fresh(result)", "len(result) == training_data.shape[0]",
                  "forall(0, len(result), lambda p: 0 <= result[p] and result[p] < num_clusters)", "unchanged(training_data)"],
         effects=['reads_numpy_global_rng'])

_KC = "len(model.clusters)"
_TBL = ("forall(lambda p, c: implies(0 <= p and p < test_data.shape[0] and 0 <= c and c < " + _KC + ", TABLE[p, c] == "
        "-gauss_ll(test_data[p, :], model.clusters[c].stacked_data_mean, model.clusters[c].train_inverse, "
        "logdet(model.clusters[c].train_inverse), test_data.shape[1])))")


def _sub(clause):
    """kernel clause -> the same clause about the locals of predict_cluster_labels"""
    return (clause.replace('label_assignment_cost', 'TABLE').replace('result[0]', 'result._point_labels')
            .replace('result[1]', 'result.TABLE_COST'))


contract(L + 'predict_cluster_labels', props=['C09', 'C01', 'C05', 'C06', 'C13', 'C19'],
         params=dict(model='obj:ModelState', test_data='arr2[real]'), returns='obj:ModelState',
         requires=["wf(model)", ("typestate:mrfs-optimised", "model._phase == 3"),
                   "model.arguments.window_size >= 1", "stacked_ok(test_data, model.arguments.window_size)",
                   "test_data.shape[0] >= 1", "len(model.clusters) >= 1 and len(model.clusters) <= 65536",
                   "model.arguments.label_switching_cost >= 0",
                   "forall(0, " + _KC + ", lambda k: not isnone(model.clusters[k].stacked_data_mean) and not isnone(model.clusters[k].train_inverse) and "
                   "model.clusters[k].stacked_data_mean.shape[0] == test_data.shape[1] and "
                   "model.clusters[k].train_inverse.shape[0] == test_data.shape[1] and "
                   "model.clusters[k].train_inverse.shape[1] == test_data.shape[1] and is_spd(model.clusters[k].train_inverse))"],
         # the two derived cache fields of the state given are refreshed (not labelling, membership or fitted statistics)
         assigns=['model.clusters[*].inverse_covariance', 'model.clusters[*].log_determinant'],
         ghost={'cumulative_posts': True,
                'returns': dict(TABLE='label_assignment_cost', F='ghost_assign_point_cluster_labels_F',
                                P='ghost_assign_point_cluster_labels_P', B='ghost_assign_point_cluster_labels_B', COST='cost'),
                'return_kinds': dict(TABLE='arr2[real]', F='arr2[real]', P='arr2[int]', B='arr1[real]', COST='real'),
                'comps': {1: dict(kind='list[obj:ClusterParameters]',
                                  lemmas_end=["members_ok(model.clusters[_k]._member_points, model._point_labels, _k)",
                                              "ascending(model.clusters[_k]._member_points)",
                                              "eqcontent(_comp1[_k]._member_points, model.clusters[_k]._member_points)",
                                              "members_ok(_comp1[_k]._member_points, model._point_labels, _k)"],
                                  inv=["len(_comp1) == _k",
                                       "forall(0, _k, lambda k: members_ok(_comp1[k]._member_points, model._point_labels, k))",
                                       "forall(0, _k, lambda k: fresh(_comp1[k]) and allocated(_comp1[k]) and fresh(_comp1[k]._member_points) and "
                                       "not same(_comp1[k]._member_points, _comp1))",
                                       "forall(lambda k1, k2: implies(0 <= k1 and k1 < k2 and k2 < _k, not same(_comp1[k1], _comp1[k2])))",
                                       "forall(0, _k, lambda k: fresh(_comp1[k].train_inverse) and fresh(_comp1[k].computed_covariance) and "
                                       "fresh(_comp1[k].stacked_data_mean) and fresh(_comp1[k].empirical_covariance))",
                                       "forall(0, _k, lambda k: eqcontent(_comp1[k].train_inverse, model.clusters[k].train_inverse) and "
                                       "eqcontent(_comp1[k].stacked_data_mean, model.clusters[k].stacked_data_mean) and "
                                       "eqcontent(_comp1[k].empirical_covariance, model.clusters[k].empirical_covariance) and "
                                       "eqcontent(_comp1[k].computed_covariance, model.clusters[k].computed_covariance))"])}},
         ensures=["fresh(result)", "fresh(result.clusters)", "len(result.clusters) == " + _KC, "same(result.arguments, model.arguments)",
                  ("cost-table-is-minus-the-log-likelihood-under-the-models-means-and-MRFs", _TBL),
                  ("one-label-per-point-in-range", "len(result._point_labels) == test_data.shape[0] and "
                   "forall(0, test_data.shape[0], lambda t: 0 <= result._point_labels[t] and result._point_labels[t] < " + _KC + ")"),
                  ("reported-cost-is-the-kernels", "result.label_assignment_cost == COST"),
                  # the Bellman facts of the kernel, about THIS cost table and THESE labels (feed the optimality lemmas)
                  ("kernel:beta-broadcast", "forall(0, test_data.shape[0], lambda t: B[t] == model.arguments.label_switching_cost)"),
                  ("kernel:bellman-last-row", _sub(LA._LAST.format(T="TABLE.shape[0]", K="TABLE.shape[1]", F='F'))),
                  ("kernel:bellman-attained", _sub(LA._ATT.format(T="TABLE.shape[0]", K="TABLE.shape[1]", F='F', P='P', B='B', lo='-1'))),
                  ("kernel:bellman-lower-bound", _sub(LA._LB.format(T="TABLE.shape[0]", K="TABLE.shape[1]", F='F', P='P', B='B', lo='-1'))),
                  ("kernel:first-label-minimises", "forall(lambda c: implies(0 <= c and c < TABLE.shape[1], "
                   "F[0, result._point_labels[0]] + TABLE[0, result._point_labels[0]] <= F[0, c] + TABLE[0, c]))"),
                  ("kernel:path-follows-table", "forall(lambda t: implies(0 <= t and t <= TABLE.shape[0] - 2, "
                   "result._point_labels[t + 1] == P[t, result._point_labels[t]]))"),
                  ("kernel:cost-is-table-entry", "COST == F[0, result._point_labels[0]] + TABLE[0, result._point_labels[0]]"),
                  ("scored-model-is-carried-into-the-new-state", "forall(0, " + _KC + ", lambda k: fresh(result.clusters[k]) and "
                   "eqcontent(result.clusters[k].train_inverse, model.clusters[k].train_inverse) and "
                   "eqcontent(result.clusters[k].stacked_data_mean, model.clusters[k].stacked_data_mean) and "
                   "eqcontent(result.clusters[k].empirical_covariance, model.clusters[k].empirical_covariance) and "
                   "fresh(result.clusters[k].train_inverse) and fresh(result.clusters[k].computed_covariance))"),
                  ("wf:K-clusters", "len(result.clusters) == result.arguments.num_clusters"),
                  ("wf:distinct", "distinct_clusters(result)"),
                  ("wf:membership", "membership_ok(result)"),
                  ("result-is-well-formed", "wf(result)"),
                  ("state-given-keeps-its-labelling-membership-and-statistics", "unchanged(model, model.clusters, model._point_labels, test_data) and "
                   "forall(0, " + _KC + ", lambda k: unchanged(model.clusters[k]._member_points) and "
                   "same(model.clusters[k].train_inverse, old(model.clusters[k].train_inverse)) and "
                   "same(model.clusters[k].empirical_covariance, old(model.clusters[k].empirical_covariance)) and "
                   "same(model.clusters[k].stacked_data_mean, old(model.clusters[k].stacked_data_mean)) and "
                   "same(model.clusters[k].computed_covariance, old(model.clusters[k].computed_covariance)) and "
                   "same(model.clusters[k]._member_points, old(model.clusters[k]._member_points)))"),
                  ("def:typestate", "result._phase == 4")])
