"""Contracts: fast_ticc.admm.solver / front_end  (C02, C03, C18, C19)"""
from pyvc.spec import contract, specfn, lemma

SV = 'fast_ticc.admm.solver.'

specfn('rabs', "lambda x: ite(x >= 0, x, -x)")
# objective of the one-dimensional class problem solved by the Z-step:  Lam*|z| + (P/2) z^2 - S z
specfn('prox_obj', "lambda S, Lam, P, z: Lam*rabs(z) + (P/2)*z*z - S*z")

contract(SV + 'soft_threshold_prox', props=['C02', 'C03'],
         params=dict(scaled_point_sum='real', lambda_sum='real', rho_times_r='real'), returns='real',
         requires=["lambda_sum >= 0", "rho_times_r > 0"],
         ensures=[("closed-form", "result == ite(scaled_point_sum > lambda_sum, (scaled_point_sum - lambda_sum)/rho_times_r, "
                   "ite(scaled_point_sum < -lambda_sum, (scaled_point_sum + lambda_sum)/rho_times_r, 0))"),
                  # exact minimiser of the class problem (this is what makes Z the argmin of the Z-step)
                  ("is-global-minimiser", "forall(lambda x_z: prox_obj(scaled_point_sum, lambda_sum, rho_times_r, result) <= "
                   "prox_obj(scaled_point_sum, lambda_sum, rho_times_r, x_z))"),
                  ("shrinks-toward-zero", "rabs(result) * rho_times_r <= rabs(scaled_point_sum)"),
                  ("exact-zero-inside-threshold", "implies(rabs(scaled_point_sum) <= lambda_sum, result == 0)")])

_CLS = dict(block_id='int', row='int', column='int', block_size='int', num_blocks='int')
_CLS_PRE = ["0 <= block_id", "block_id < num_blocks", "block_size > 0", "0 <= row", "row < block_size",
            "0 <= column", "column < block_size"]

contract(SV + 'compute_lambda_sum#float', props=['C02', 'C18'],
         params=dict(lambda_parameter='real', **_CLS), returns='real', requires=_CLS_PRE,
         ensures=[("scalar-times-occurrences", "result == lambda_parameter * (num_blocks - block_id)")])

# a Python int is one of the scalar forms the property lists: it must behave like the float of equal value
contract(SV + 'compute_lambda_sum#int', props=['C18'],
         params=dict(lambda_parameter='int', **_CLS), returns='real', requires=_CLS_PRE,
         ensures=[("scalar-times-occurrences", "result == lambda_parameter * (num_blocks - block_id)")])

# Lambda_class(b, r, c): the weight of a Toeplitz class under a matrix-valued lambda = sum of lambda over its W-b positions
# (opaque outside compute_lambda_sum#array, so that the Z-step's invariants match it by congruence)
specfn('lam_class', sig=(['arr2[real]'] + ['int'] * 5, 'real'),
       native="lambda L, b, r, c, N, W: sum(float(L[j*N + r, (b + j)*N + c]) for j in range(W - b))")

contract(SV + 'compute_lambda_sum#array', props=['C02', 'C18', 'C19'],
         params=dict(lambda_parameter='arr2[real]', **_CLS), returns='real',
         requires=_CLS_PRE + ["lambda_parameter.shape[0] == block_size*num_blocks",
                              "lambda_parameter.shape[1] == block_size*num_blocks"],
         ensures=[("sum-over-class-positions", "result == rsum(lambda j: lambda_parameter[j*block_size + row, "
                   "(block_id + j)*block_size + column], num_blocks - block_id)"),
                  # names the value just characterised: Lambda_class(b, r, c) := what this function returns (a function of its
                  # arguments by the clause above), so that callers can refer to it without unfolding the sum
                  ("def:class-weight", "result == lam_class(lambda_parameter, block_id, row, column, block_size, num_blocks)"),
                  # a matrix filled with one value gives exactly what the scalar form gives (over the reals)
                  ("constant-matrix-equals-scalar-form",
                   "implies(forall(lambda a, b: implies(0 <= a and a < lambda_parameter.shape[0] and 0 <= b and "
                   "b < lambda_parameter.shape[1], lambda_parameter[a, b] == lambda_parameter[0, 0])), "
                   "result == lambda_parameter[0, 0] * (num_blocks - block_id))"),
                  "unchanged(lambda_parameter)"])

contract(SV + 'admm_update_u', props=['C02', 'C19'],
         params=dict(u='arr1[real]', x='arr1[real]', z='arr1[real]'), returns='arr1[real]',
         requires=["u.shape[0] == x.shape[0]", "x.shape[0] == z.shape[0]"],
         ensures=["result.shape[0] == u.shape[0]",
                  ("dual-update", "forall(0, u.shape[0], lambda i: result[i] == u[i] + x[i] - z[i])"),
                  "fresh(result)", "unchanged(u, x, z)"])

from pyvc.spec import classschema
classschema('ADMMArguments', 'fast_ticc.containers.arguments.ADMMArguments',
            dict(window_size='int', num_data_series='int', rho='real', rho_update='opaque:callable',
                 sparsity_weight='real', absolute_tolerance='real', relative_tolerance='real',
                 max_iterations='int', verbose='bool'))

_AA = ['window_size', 'num_data_series', 'rho', 'rho_update', 'sparsity_weight', 'absolute_tolerance', 'relative_tolerance',
       'max_iterations', 'verbose']
for _m in ('shallow_copy', 'deep_copy'):
    contract('fast_ticc.containers.arguments.ADMMArguments.' + _m, props=['C02', 'C19'], params=dict(self='obj:ADMMArguments'),
             returns='obj:ADMMArguments',
             ensures=["fresh(result)"] + ["result.%s == self.%s" % (f, f) for f in _AA] + ["unchanged(self)"])

_EPS_ABS = "(sqrt(x.shape[0]) * args.absolute_tolerance + 0.0001)"
_SAME_LEN = ["u.shape[0] == x.shape[0]", "x.shape[0] == z.shape[0]"]

contract(SV + 'check_convergence', props=['C02', 'C19'],
         params=dict(args='obj:ADMMArguments', u='arr1[real]', x='arr1[real]', z='arr1[real]', z_old='arr1[real]'),
         returns='tuple[bool,real,real,real,real]',
         requires=_SAME_LEN + ["z_old.shape[0] == z.shape[0]"],
         ensures=[("primal-residual", "result[1] == norm(lambda i: x[i] - z[i], x.shape[0])"),
                  ("dual-residual", "result[3] == norm(lambda i: args.rho * (z[i] - z_old[i]), x.shape[0])"),
                  ("primal-tolerance", "result[2] == %s + args.relative_tolerance * "
                   "max(norm(lambda i: x[i], x.shape[0]), norm(lambda i: z[i], x.shape[0]))" % _EPS_ABS),
                  ("dual-tolerance", "result[4] == %s + args.relative_tolerance * norm(lambda i: args.rho * u[i], x.shape[0])" % _EPS_ABS),
                  ("stop-iff-both-residuals-within-tolerance",
                   "result[0] == (result[1] <= result[2] and result[3] <= result[4])"),
                  "unchanged(u, x, z, z_old, args)"])

contract(SV + 'x_update_prox', props=['C02', 'C03', 'C19'],
         params=dict(empirical_covariance='arr2[real]', z_minus_u='arr2[real]', rho='real'), returns='arr1[real]',
         requires=["rho > 0", "empirical_covariance.shape[0] == empirical_covariance.shape[1]",
                   "z_minus_u.shape[0] == empirical_covariance.shape[0]", "z_minus_u.shape[1] == empirical_covariance.shape[0]"],
         ghost={'returns': dict(D='d', Q='q', IT='inner_term', TH='theta_new', SC='rho_scale'),
                'return_kinds': dict(D='arr1[real]', Q='arr2[real]', IT='arr2[real]', TH='arr2[real]', SC='real')},
         ensures=["2*result.shape[0] == z_minus_u.shape[0]*(z_minus_u.shape[0] + 1)",
                  # per eigenvalue d of rho*(Z-U) - S the new eigenvalue e = IT/(2 rho) is positive and solves
                  # rho*e - 1/e = d, i.e. it is the exact minimiser of -log e + (rho/2)(e - ..)^2 in that eigen-direction
                  ("new-eigenvalues-positive", "forall(0, z_minus_u.shape[0], lambda i: SC * IT[i, i] > 0)"),
                  ("new-eigenvalues-solve-prox-equation", "forall(0, z_minus_u.shape[0], lambda i: "
                   "rho * (SC * IT[i, i]) - 1 / (SC * IT[i, i]) == D[i])"),
                  # Theta = Q diag(e) Q^T with (D, Q) the eigen-decomposition of rho*(Z-U) - S
                  ("theta-is-spectral-map", "forall(lambda i, j: TH[i, j] == SC * matmul(matmul(Q, IT), transpose(Q))[i, j])"),
                  ("eigen-decomposition-of-the-right-matrix", "eigh_of(D, Q, lambda i, j: rho * z_minus_u[i, j] - empirical_covariance[i, j], z_minus_u.shape[0])"),
                  ("inner-term-is-diagonal", "forall(lambda i, j: implies(0 <= i and i < z_minus_u.shape[0] and 0 <= j and "
                   "j < z_minus_u.shape[0] and i != j, IT[i, j] == 0))"),
                  ("result-is-compressed-theta", "forall(lambda r, c: implies(0 <= r and r <= c and c < z_minus_u.shape[0], "
                   "result[tri_rank(r, c, z_minus_u.shape[0])] == TH[r, c]))"),
                  "fresh(result)", "unchanged(empirical_covariance, z_minus_u)"])

contract(SV + 'admm_update_x', props=['C02', 'C19'],
         params=dict(args='obj:ADMMArguments', u='arr1[real]', z='arr1[real]', empirical_covariance='arr2[real]'),
         returns='arr1[real]',
         requires=["args.rho > 0", "u.shape[0] == z.shape[0]",
                   "2*z.shape[0] == empirical_covariance.shape[0]*(empirical_covariance.shape[0] + 1)",
                   "empirical_covariance.shape[0] == empirical_covariance.shape[1]"],
         ensures=["result.shape[0] == z.shape[0]", "fresh(result)", "unchanged(u, z, empirical_covariance, args)"])

# compressed index of occurrence j of Toeplitz class (b, r, c) for block size N and W blocks
specfn('cidx', "lambda b, r, c, j, N, W: tri_rank(j*N + r, (b + j)*N + c, N*W)",
       sig=(['int'] * 6, 'int'), uf=True)
specfn('validcls', "lambda b, r, c, N, W: 0 <= b and b < W and 0 <= r and r < N and 0 <= c and c < N and (b > 0 or r <= c)")
specfn('soft', "lambda S, Lam, P: ite(S > Lam, (S - Lam)/P, ite(S < -Lam, (S + Lam)/P, 0))")
# sum of T over the W-b compressed positions of class (b, r, c):  sum_j T[cidx(b,r,c,j,N,W)]   (defined, never unfolded by the solver)
specfn('cls_sum', sig=(['arr1[real]'] + ['int'] * 5, 'real'),
       native="lambda T, b, r, c, N, W: sum(T[(j*N + r)*(N*W) - ((j*N + r)*(j*N + r + 1))//2 + (b + j)*N + c] for j in range(W - b))")

_ZVAL = ("soft(args.rho * cls_sum(theta_plus_u, b2, r2, c2, block_size, num_blocks), %s, args.rho * (num_blocks - b2))")
_ZINV = ("forall(lambda b2, r2, c2, j2: implies(validcls(b2, r2, c2, block_size, num_blocks) and (%s) and 0 <= j2 and "
         "j2 < num_blocks - b2, z_update[cidx(b2, r2, c2, j2, block_size, num_blocks)] == " + _ZVAL + "))")
_INJ = ("forall(lambda b1, r1, c1, j1, b2, r2, c2, j2: implies(validcls(b1, r1, c1, block_size, num_blocks) and "
        "validcls(b2, r2, c2, block_size, num_blocks) and 0 <= j1 and j1 < num_blocks - b1 and 0 <= j2 and j2 < num_blocks - b2 and "
        "cidx(b1, r1, c1, j1, block_size, num_blocks) == cidx(b2, r2, c2, j2, block_size, num_blocks), "
        "b1 == b2 and r1 == r2 and c1 == c2 and j1 == j2))")


def _zupdate(variant, lam_kind, lam_expr, extra_pre, schema):
    contract(SV + 'admm_update_z' + variant, props=['C02', 'C19'],
             params=dict(args='obj:ADMMArguments', u='arr1[real]', x='arr1[real]'), returns='arr1[real]',
             requires=["args.rho > 0", "args.window_size >= 1", "args.num_data_series >= 1",
                       "args.window_size * args.num_data_series < 67108864", "u.shape[0] == x.shape[0]",
                       "2*x.shape[0] == args.window_size*args.num_data_series*(args.window_size*args.num_data_series + 1)"] + extra_pre,
             ghost={'reveal': ['tri_rank', 'cidx'],
                    'returns': dict(theta_plus_u='theta_plus_u', block_size='block_size', num_blocks='num_blocks'),
                    'return_kinds': dict(theta_plus_u='arr1[real]', block_size='int', num_blocks='int'),
                    'schema': schema},
             axioms=[("toeplitz-class-positions-are-pairwise-distinct", _INJ.replace('block_size', 'args.num_data_series').replace('num_blocks', 'args.window_size'))],
             ensures=["result.shape[0] == x.shape[0]", "block_size == args.num_data_series", "num_blocks == args.window_size",
                      ("theta-plus-u", "forall(0, x.shape[0], lambda i: theta_plus_u[i] == x[i] + u[i])"),
                      # every occurrence of every Toeplitz class holds the exact minimiser of the class problem
                      ("every-class-position-holds-the-class-prox-value", (_ZINV % ("True", lam_expr)).replace('z_update', 'result')),
                      "fresh(result)", "unchanged(u, x, args)"],
             loops={1: dict(inv=[_ZINV % ("b2 < block_id", lam_expr)], modifies=['z_update']),
                    2: dict(inv=[_ZINV % ("b2 < block_id or (b2 == block_id and r2 < row)", lam_expr)], modifies=['z_update']),
                    3: dict(inv=[_ZINV % ("b2 < block_id or (b2 == block_id and (r2 < row or (r2 == row and c2 < col)))", lam_expr),
                                 "start_column <= col"],
                            modifies=['z_update'], body_ghost={'zprev': 'copyof(z_update)'},
                            assume_lemmas=[("cls_sum-unfolds-to-the-gathered-sum",
                                            "implies(forall(0, num_blocks - block_id, lambda q: indices[q] == cidx(block_id, row, col, q, block_size, num_blocks)), "
                                            "rsum(lambda q: theta_plus_u[indices[q]], num_blocks - block_id) == "
                                            "cls_sum(theta_plus_u, block_id, row, col, block_size, num_blocks))")],
                            lemmas_end=["len(indices) == num_blocks - block_id",
                                        "forall(0, num_blocks - block_id, lambda q: indices[q] == cidx(block_id, row, col, q, block_size, num_blocks))",
                                        "rsum(lambda q: theta_plus_u[indices[q]], num_blocks - block_id) == cls_sum(theta_plus_u, block_id, row, col, block_size, num_blocks)",
                                        "scaled_point_sum == args.rho * rsum(lambda q: theta_plus_u[indices[q]], num_blocks - block_id)",
                                        "scaled_point_sum == args.rho * cls_sum(theta_plus_u, block_id, row, col, block_size, num_blocks)",
                                        "forall(lambda b2, r2, c2, j2, q: implies(validcls(b2, r2, c2, block_size, num_blocks) and "
                                        "(b2 < block_id or (b2 == block_id and (r2 < row or (r2 == row and c2 < col)))) and 0 <= j2 and j2 < num_blocks - b2 "
                                        "and 0 <= q and q < num_blocks - block_id, indices[q] != cidx(b2, r2, c2, j2, block_size, num_blocks)), "
                                        "pat=(indices[q], cidx(b2, r2, c2, j2, block_size, num_blocks)))",
                                        "lambda_sum == %s" % lam_expr.replace('b2', 'block_id').replace('r2', 'row').replace('c2', 'col'),
                                        "num_occurrences == num_blocks - block_id",
                                        "args.rho * num_occurrences == args.rho * (num_blocks - block_id)",
                                        "soft(scaled_point_sum, lambda_sum, args.rho * num_occurrences) == " + (_ZVAL % lam_expr).replace('b2', 'block_id').replace('r2', 'row').replace('c2', 'col'),
                                        "forall(0, num_blocks - block_id, lambda q: z_update[indices[q]] == soft(scaled_point_sum, lambda_sum, args.rho * num_occurrences))",
                                        "forall(0, num_blocks - block_id, lambda q: z_update[indices[q]] == " + (_ZVAL % lam_expr).replace('b2', 'block_id').replace('r2', 'row').replace('c2', 'col') + ")",
                                        ("cells-not-in-this-class-unchanged", "forall(lambda t: implies(0 <= t and t < z_update.shape[0] and "
                                         "forall(0, num_blocks - block_id, lambda q: indices[q] != t), z_update[t] == zprev[t]))"),
                                        ("earlier-class-cells-unchanged", "forall(lambda b2, r2, c2, j2: implies(validcls(b2, r2, c2, block_size, num_blocks) and "
                                         "(b2 < block_id or (b2 == block_id and (r2 < row or (r2 == row and c2 < col)))) and 0 <= j2 and j2 < num_blocks - b2, "
                                         "z_update[cidx(b2, r2, c2, j2, block_size, num_blocks)] == zprev[cidx(b2, r2, c2, j2, block_size, num_blocks)]))"),
                                        ("earlier-class-cells-hold-values-before", (_ZINV % ("b2 < block_id or (b2 == block_id and (r2 < row or (r2 == row and c2 < col)))", lam_expr)).replace('z_update', 'zprev')),
                                        ("earlier-classes-untouched", _ZINV % ("b2 < block_id or (b2 == block_id and (r2 < row or (r2 == row and c2 < col)))", lam_expr)),
                                        "forall(0, num_blocks - block_id, lambda q: z_update[cidx(block_id, row, col, q, block_size, num_blocks)] == "
                                        + (_ZVAL % lam_expr).replace('b2', 'block_id').replace('r2', 'row').replace('c2', 'col') + ")",
                                        ("this-class-holds-its-value", _ZINV % ("b2 == block_id and r2 == row and c2 == col", lam_expr))])})


_zupdate('#float', 'real', "args.sparsity_weight * (num_blocks - b2)", ["args.sparsity_weight >= 0"], {})

# matrix-valued lambda: the same class-value invariant with the class weight Lambda_class carried by compute_lambda_sum#array
_zupdate('#array', 'arr2[real]', "lam_class(args.sparsity_weight, b2, r2, c2, block_size, num_blocks)",
         ["args.sparsity_weight.shape[0] == args.window_size*args.num_data_series",
          "args.sparsity_weight.shape[1] == args.window_size*args.num_data_series",
          "forall(lambda a, b: args.sparsity_weight[a, b] >= 0)"],
         {'ADMMArguments.sparsity_weight': 'arr2[real]'})

_NW = "(args.window_size * args.num_data_series)"
_SIZES = ["2*x.shape[0] == %s*(%s + 1)" % (_NW, _NW), "z.shape[0] == x.shape[0]", "u.shape[0] == x.shape[0]"]
_ARGS_OK = ["args.rho > 0", "args.window_size >= 1", "args.num_data_series >= 1", _NW + " < 67108864",
            "args.sparsity_weight >= 0"]

contract(SV + 'run_admm_optimization', props=['C02', 'C19'],
         params=dict(args='obj:ADMMArguments', empirical_covariance='arr2[real]'), returns='arr1[real]',
         requires=_ARGS_OK + ["empirical_covariance.shape[0] == " + _NW, "empirical_covariance.shape[1] == " + _NW],
         assigns=['args.rho'],
         ghost={'kind:z_old': 'arr1[real]', 'reveal': ['tri_rank', 'cidx'],
                'returns': dict(X='x', Z='z', U='u', ZO='z_old', stopped='stopped', rounds='rounds', UP='uprev',
                                TPU='ghost_admm_update_z_theta_plus_u'),
                'return_kinds': dict(X='arr1[real]', Z='arr1[real]', U='arr1[real]', ZO='arr1[real]', stopped='bool', rounds='int',
                                     UP='arr1[real]', TPU='arr1[real]'),
                'nullable': []},
         ensures=["2*result.shape[0] == %s*(%s + 1)" % (_NW, _NW),
                  ("returns-the-last-x", "same(result, X)"),
                  ("budget", "0 <= rounds and (rounds <= args.max_iterations or rounds == 0)"),
                  ("stops-early-only-by-the-rule", "stopped or rounds == args.max_iterations or args.max_iterations < 0"),
                  # conditional clause of the property: when the stopping rule fired, the returned Theta is within the primal
                  # tolerance of Z, and Z is exactly block-Toeplitz (constant on every Toeplitz class)
                  ("on-rule-exit:primal-residual-within-tolerance",
                   "implies(stopped, norm(lambda i: X[i] - Z[i], X.shape[0]) <= "
                   "(sqrt(X.shape[0]) * args.absolute_tolerance + 0.0001) + args.relative_tolerance * "
                   "max(norm(lambda i: X[i], X.shape[0]), norm(lambda i: Z[i], X.shape[0])))"),
                  ("on-rule-exit:dual-residual-within-tolerance",
                   "implies(stopped, norm(lambda i: args.rho * (Z[i] - ZO[i]), X.shape[0]) <= "
                   "(sqrt(X.shape[0]) * args.absolute_tolerance + 0.0001) + args.relative_tolerance * "
                   "norm(lambda i: args.rho * U[i], X.shape[0]))"),
                  ("on-rule-exit:z-is-block-toeplitz",
                   "implies(stopped, forall(lambda b2, r2, c2, j2, j3: implies(validcls(b2, r2, c2, args.num_data_series, args.window_size) "
                   "and 0 <= j2 and j2 < args.window_size - b2 and 0 <= j3 and j3 < args.window_size - b2, "
                   "Z[cidx(b2, r2, c2, j2, args.num_data_series, args.window_size)] == "
                   "Z[cidx(b2, r2, c2, j3, args.num_data_series, args.window_size)])))"),
                  ("on-rule-exit:z-step-was-given-the-returned-x",
                   "implies(stopped, forall(0, X.shape[0], lambda i: TPU[i] == X[i] + UP[i]))"),
                  ("on-rule-exit:z-holds-the-class-prox-values-for-x-plus-u",
                   "implies(stopped, " + (_ZINV % ("True", "args.sparsity_weight * (num_blocks - b2)")).replace('z_update', 'Z')
                   .replace('theta_plus_u', 'TPU').replace('block_size', 'args.num_data_series').replace('num_blocks', 'args.window_size') + ")"),
                  ("on-rule-exit:dual-variable-is-u-plus-x-minus-z",
                   "implies(stopped, forall(0, X.shape[0], lambda i: U[i] == UP[i] + X[i] - Z[i]))"),
                  "fresh(result)", "unchanged(empirical_covariance)"],
         loops={1: dict(ghost={'stopped': 'False', 'rounds': '0', 'uprev': 'u', 'ghost_admm_update_z_theta_plus_u': 'u'}, body_ghost={'uprev': 'u', 'rho0': 'args.rho'},
                        # scaled dual variable: rho*u is what is carried from one round to the next
                        lemmas_end=[("rho-rescaling-keeps-rho-times-u", "forall(0, x.shape[0], lambda i: "
                                     "args.rho * u[i] == rho0 * (uprev[i] + x[i] - z[i]))")], ghost_break={'stopped': 'True', 'rounds': 'rounds + 1'},
                        ghost_update={'rounds': 'rounds + 1'},
                        # evenness of m(m+1), via the division-free form of tri_rank
                        lemmas_init=["2*tri_rank(matrix_size, 0, 0) == -(matrix_size*(matrix_size + 1))",
                                     "2*compressed_array_size == matrix_size*(matrix_size + 1)"],
                        inv=_SIZES + ["args.rho > 0", "not stopped", "rounds == iteration",
                                      "fresh(x) and fresh(z) and fresh(u)"],
                        modifies=['args.rho'])})

AF = 'fast_ticc.admm.front_end.'
from pyvc.spec import classschema as _cs
_cs('ADMMResult', 'fast_ticc.containers.results.ADMMResult', dict(theta='arr1[real]'))
contract(AF + 'admm_optimize_theta', props=['C02', 'C19'],
         params=dict(empirical_covariance='arr2[real]', sparsity_weight='real', window_size='int', num_data_series='int',
                     rho='real', rho_update='opaque:callable', max_iterations='int', absolute_tolerance='real',
                     relative_tolerance='real', verbose='bool'),
         ghost={'nullable': ['rho_update']},
         returns='obj:ADMMResult',
         requires=["rho > 0", "window_size >= 1", "num_data_series >= 1", "window_size*num_data_series < 67108864",
                   "sparsity_weight >= 0", "empirical_covariance.shape[0] == window_size*num_data_series",
                   "empirical_covariance.shape[1] == window_size*num_data_series"],
         ensures=["2*result.theta.shape[0] == window_size*num_data_series*(window_size*num_data_series + 1)",
                  "fresh(result)", "fresh(result.theta)", "unchanged(empirical_covariance)"])
