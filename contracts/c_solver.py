"""Contracts: fast_ticc.admm.solver / front_end  (C02, C03, C18, C19)"""
from pyvc.spec import contract, specfn, lemma

SV = 'fast_ticc.admm.solver.'

specfn('rabs', "lambda x: ite(x >= 0, x, -x)")
# objective of the one-dimensional class problem solved by the Z-step:  Lam*|z| + (P/2) z^2 - S z
specfn('prox_obj', "lambda S, Lam, P, z: Lam*rabs(z) + (P/2)*z*z - S*z")

contract(SV + 'soft_threshold_prox', props=['C02', 'C03'],
         params=dict(scaled_point_sum='real', lambda_sum='real', rho_times_r='real'), returns='real',
         requires=["lambda_sum >= 0", "rho_times_r > 0"],
         ensures=[("closed-form", "result == ite(scaled_point_sum > lambda_sum, (scaled_point_sum - lambda_sum)/rho_times_r, "
                   "ite(scaled_point_sum < -lambda_sum, (scaled_point_sum + lambda_sum)/rho_times_r, 0))"),
                  # exact minimiser of the class problem (this is what makes Z the argmin of the Z-step)
                  ("is-global-minimiser", "forall(lambda x_z: prox_obj(scaled_point_sum, lambda_sum, rho_times_r, result) <= "
                   "prox_obj(scaled_point_sum, lambda_sum, rho_times_r, x_z))"),
                  ("shrinks-toward-zero", "rabs(result) * rho_times_r <= rabs(scaled_point_sum)"),
                  ("exact-zero-inside-threshold", "implies(rabs(scaled_point_sum) <= lambda_sum, result == 0)")])

_CLS = dict(block_id='int', row='int', column='int', block_size='int', num_blocks='int')
_CLS_PRE = ["0 <= block_id", "block_id < num_blocks", "block_size > 0", "0 <= row", "row < block_size",
            "0 <= column", "column < block_size"]

contract(SV + 'compute_lambda_sum#float', props=['C02', 'C18'],
         params=dict(lambda_parameter='real', **_CLS), returns='real', requires=_CLS_PRE,
         ensures=[("scalar-times-occurrences", "result == lambda_parameter * (num_blocks - block_id)")])

# a Python int is one of the scalar forms the property lists: it must behave like the float of equal value
contract(SV + 'compute_lambda_sum#int', props=['C18'],
         params=dict(lambda_parameter='int', **_CLS), returns='real', requires=_CLS_PRE,
         ensures=[("scalar-times-occurrences", "result == lambda_parameter * (num_blocks - block_id)")])

contract(SV + 'compute_lambda_sum#array', props=['C02', 'C18', 'C19'],
         params=dict(lambda_parameter='arr2[real]', **_CLS), returns='real',
         requires=_CLS_PRE + ["lambda_parameter.shape[0] == block_size*num_blocks",
                              "lambda_parameter.shape[1] == block_size*num_blocks"],
         ensures=[("sum-over-class-positions", "result == rsum(lambda j: lambda_parameter[j*block_size + row, "
                   "(block_id + j)*block_size + column], num_blocks - block_id)"),
                  # a matrix filled with one value gives exactly what the scalar form gives (over the reals)
                  ("constant-matrix-equals-scalar-form",
                   "implies(forall(lambda a, b: implies(0 <= a and a < lambda_parameter.shape[0] and 0 <= b and "
                   "b < lambda_parameter.shape[1], lambda_parameter[a, b] == lambda_parameter[0, 0])), "
                   "result == lambda_parameter[0, 0] * (num_blocks - block_id))"),
                  "unchanged(lambda_parameter)"])

contract(SV + 'admm_update_u', props=['C02', 'C19'],
         params=dict(u='arr1[real]', x='arr1[real]', z='arr1[real]'), returns='arr1[real]',
         requires=["u.shape[0] == x.shape[0]", "x.shape[0] == z.shape[0]"],
         ensures=["result.shape[0] == u.shape[0]",
                  ("dual-update", "forall(0, u.shape[0], lambda i: result[i] == u[i] + x[i] - z[i])"),
                  "fresh(result)", "unchanged(u, x, z)"])

from pyvc.spec import classschema
classschema('ADMMArguments', 'fast_ticc.containers.arguments.ADMMArguments',
            dict(window_size='int', num_data_series='int', rho='real', rho_update='opaque:callable',
                 sparsity_weight='real', absolute_tolerance='real', relative_tolerance='real',
                 max_iterations='int', verbose='bool'))

_EPS_ABS = "(sqrt(x.shape[0]) * args.absolute_tolerance + 0.0001)"
_SAME_LEN = ["u.shape[0] == x.shape[0]", "x.shape[0] == z.shape[0]"]

contract(SV + 'check_convergence', props=['C02', 'C19'],
         params=dict(args='obj:ADMMArguments', u='arr1[real]', x='arr1[real]', z='arr1[real]', z_old='arr1[real]'),
         returns='tuple[bool,real,real,real,real]',
         requires=_SAME_LEN + ["z_old.shape[0] == z.shape[0]"],
         ensures=[("primal-residual", "result[1] == norm(lambda i: x[i] - z[i], x.shape[0])"),
                  ("dual-residual", "result[3] == norm(lambda i: args.rho * (z[i] - z_old[i]), x.shape[0])"),
                  ("primal-tolerance", "result[2] == %s + args.relative_tolerance * "
                   "max(norm(lambda i: x[i], x.shape[0]), norm(lambda i: z[i], x.shape[0]))" % _EPS_ABS),
                  ("dual-tolerance", "result[4] == %s + args.relative_tolerance * norm(lambda i: args.rho * u[i], x.shape[0])" % _EPS_ABS),
                  ("stop-iff-both-residuals-within-tolerance",
                   "result[0] == (result[1] <= result[2] and result[3] <= result[4])"),
                  "unchanged(u, x, z, z_old, args)"])

contract(SV + 'x_update_prox', props=['C02', 'C03', 'C19'],
         params=dict(empirical_covariance='arr2[real]', z_minus_u='arr2[real]', rho='real'), returns='arr1[real]',
         requires=["rho > 0", "empirical_covariance.shape[0] == empirical_covariance.shape[1]",
                   "z_minus_u.shape[0] == empirical_covariance.shape[0]", "z_minus_u.shape[1] == empirical_covariance.shape[0]"],
         ghost={'returns': dict(D='d', IT='inner_term', TH='theta_new'),
                'return_kinds': dict(D='arr1[real]', IT='arr2[real]', TH='arr2[real]')},
         ensures=["2*result.shape[0] == z_minus_u.shape[0]*(z_minus_u.shape[0] + 1)",
                  # per eigenvalue d of rho*(Z-U) - S the new eigenvalue e = IT/(2 rho) is positive and solves
                  # rho*e - 1/e = d, i.e. it is the exact minimiser of -log e + (rho/2)(e - ..)^2 in that eigen-direction
                  ("new-eigenvalues-positive", "forall(0, z_minus_u.shape[0], lambda i: IT[i, i] / (2*rho) > 0)"),
                  ("new-eigenvalues-solve-prox-equation", "forall(0, z_minus_u.shape[0], lambda i: "
                   "rho * (IT[i, i] / (2*rho)) - 1 / (IT[i, i] / (2*rho)) == D[i])"),
                  ("inner-term-is-diagonal", "forall(lambda i, j: implies(0 <= i and i < z_minus_u.shape[0] and 0 <= j and "
                   "j < z_minus_u.shape[0] and i != j, IT[i, j] == 0))"),
                  ("result-is-compressed-theta", "forall(lambda r, c: implies(0 <= r and r <= c and c < z_minus_u.shape[0], "
                   "result[tri_rank(r, c, z_minus_u.shape[0])] == TH[r, c]))"),
                  "fresh(result)", "unchanged(empirical_covariance, z_minus_u)"])

contract(SV + 'admm_update_x', props=['C02', 'C19'],
         params=dict(args='obj:ADMMArguments', u='arr1[real]', z='arr1[real]', empirical_covariance='arr2[real]'),
         returns='arr1[real]',
         requires=["args.rho > 0", "u.shape[0] == z.shape[0]",
                   "2*z.shape[0] == empirical_covariance.shape[0]*(empirical_covariance.shape[0] + 1)",
                   "empirical_covariance.shape[0] == empirical_covariance.shape[1]"],
         ensures=["result.shape[0] == z.shape[0]", "fresh(result)", "unchanged(u, z, empirical_covariance, args)"])
