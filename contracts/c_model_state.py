"""Contracts: fast_ticc.containers.model_state / arguments  (C13; used by C08, C09, C12)"""
from pyvc.spec import contract, specfn, classschema

MS = 'fast_ticc.containers.model_state.'
AR = 'fast_ticc.containers.arguments.'

classschema('UserArguments', AR + 'UserArguments',
            dict(sparsity_weight='real', iteration_limit='int', label_switching_cost='real', min_cluster_size='int',
                 min_meaningful_covariance='real', num_clusters='int', num_processors='int', window_size='int',
                 biased_covariance='bool'))
classschema('ClusterParameters', MS + 'ClusterParameters',
            dict(computed_covariance='arr2[real]', empirical_covariance='arr2[real]', graphical_lasso_cost='real',
                 inverse_covariance='arr2[real]', log_determinant='real', stacked_data_mean='arr1[real]',
                 train_inverse='arr2[real]', _member_points='list[int]'))
classschema('ModelState', MS + 'ModelState',
            dict(arguments='obj:UserArguments', clusters='list[obj:ClusterParameters]', label_assignment_cost='real',
                 _point_labels='list[int]', point_log_likelihood='arr2[real]', stacked_training_data='arr2[real]',
                 # ghost typestate: 0 initial labelling, 1 repopulated, 2 statistics fitted, 3 MRFs optimised, 4 relabelled
                 _phase='int'))

specfn('ascending', "lambda xs: forall(lambda i, j: implies(0 <= i and i < j and j < len(xs), xs[i] < xs[j]))")

# membership of cluster k is the ascending list of the points labelled k  (quantifier-alternation free:
# the point p labelled k sits at index cnt(labels, k, p) = number of earlier points labelled k)
specfn('members_ok', "lambda mp, labels, k: not isnone(mp) and len(mp) == cnt(labels, k, len(labels)) and "
       "forall(lambda p: implies(0 <= p and p < len(labels) and labels[p] == k, 0 <= cnt(labels, k, p) and "
       "cnt(labels, k, p) < len(mp) and mp[cnt(labels, k, p)] == p)) and "
       "forall(lambda i: implies(0 <= i and i < len(mp), 0 <= mp[i] and mp[i] < len(labels) and labels[mp[i]] == k)) and "
       "ascending(mp)")
# well-formed model state: K clusters, pairwise distinct objects with pairwise distinct member lists, labels in
# range, and every member list is exactly the ascending list of the points carrying that label
specfn('wf', "lambda m: not isnone(m.clusters) and not isnone(m._point_labels) and not isnone(m.arguments) and "
       "len(m.clusters) == m.arguments.num_clusters and "
       "forall(0, len(m._point_labels), lambda p: 0 <= m._point_labels[p] and m._point_labels[p] < m.arguments.num_clusters) and "
       "forall(0, len(m.clusters), lambda k: not isnone(m.clusters[k]) and members_ok(m.clusters[k]._member_points, m._point_labels, k)) and "
       "forall(lambda k1, k2: implies(0 <= k1 and k1 < k2 and k2 < len(m.clusters), not same(m.clusters[k1], m.clusters[k2])))")

_ARR2 = 'arr2[real]'
_CP_PARAMS = dict(self='obj:ClusterParameters', computed_covariance=_ARR2, empirical_covariance=_ARR2,
                  graphical_lasso_cost='real', inverse_covariance=_ARR2, log_determinant='real',
                  member_points='list[int]', stacked_data_mean='arr1[real]', train_inverse=_ARR2)
_CP_NULL = ['computed_covariance', 'empirical_covariance', 'inverse_covariance', 'member_points', 'stacked_data_mean',
            'train_inverse']
_SAME_FIELDS = ["same(%s.computed_covariance, %s)", "same(%s.empirical_covariance, %s)", "same(%s.inverse_covariance, %s)",
                "same(%s.stacked_data_mean, %s)", "same(%s.train_inverse, %s)"]

contract(MS + 'ClusterParameters.__init__', props=['C13'],
         params=_CP_PARAMS, ghost={'nullable': _CP_NULL}, assigns=['self'],
         ensures=["same(self.computed_covariance, computed_covariance)", "same(self.empirical_covariance, empirical_covariance)",
                  "same(self.inverse_covariance, inverse_covariance)", "same(self.stacked_data_mean, stacked_data_mean)",
                  "same(self.train_inverse, train_inverse)", "self.graphical_lasso_cost == graphical_lasso_cost",
                  "self.log_determinant == log_determinant",
                  ("member-list-is-a-fresh-sorted-copy", "fresh(self._member_points) and not isnone(self._member_points) and "
                   "forall(lambda i, j: implies(0 <= i and i < j and j < len(self._member_points), self._member_points[i] <= self._member_points[j]))"),
                  "implies(isnone(member_points), len(self._member_points) == 0)",
                  "implies(not isnone(member_points), len(self._member_points) == len(member_points))",
                  "implies(not isnone(member_points) and ascending(member_points), eqcontent(self._member_points, member_points))",
                  "implies(not isnone(member_points), unchanged(member_points))"])

contract(MS + 'ClusterParameters.member_points', props=['C13'], params=dict(self='obj:ClusterParameters'),
         returns='list[int]', inline=True, ensures=["same(result, self._member_points)"])

contract(MS + 'ClusterParameters.member_points.setter', props=['C13', 'C08', 'C12', 'C09'],
         params=dict(self='obj:ClusterParameters', new_members='list[int]'), ghost={'nullable': ['new_members']},
         assigns=['self._member_points'],
         ensures=["not isnone(self._member_points)",
                  "implies(isnone(new_members), len(self._member_points) == 0 and fresh(self._member_points))",
                  "implies(not isnone(new_members) and len(new_members) == 0, len(self._member_points) == 0)",
                  ("ascending-input-is-stored-unchanged", "implies(not isnone(new_members) and ascending(new_members), "
                   "eqcontent(self._member_points, new_members))"),
                  ("never-aliases-the-argument", "implies(not isnone(new_members), not same(self._member_points, new_members) or "
                   "same(old(self._member_points), new_members))"),
                  ("new-list-or-the-old-one", "fresh(self._member_points) or same(self._member_points, old(self._member_points))"),
                  "implies(not isnone(new_members), unchanged(new_members))"])

contract(MS + 'ClusterParameters.size', props=['C13', 'C08'], params=dict(self='obj:ClusterParameters'), returns='int',
         ensures=["result == ite(isnone(self._member_points), 0, len(self._member_points))"])

contract(MS + 'ClusterParameters.empty_cluster', props=['C13'], params={}, returns='obj:ClusterParameters',
         ensures=["fresh(result)", "fresh(result._member_points)", "len(result._member_points) == 0",
                  "isnone(result.computed_covariance) and isnone(result.empirical_covariance) and isnone(result.train_inverse) "
                  "and isnone(result.inverse_covariance) and isnone(result.stacked_data_mean)"])

contract(MS + 'ClusterParameters.shallow_copy', props=['C13'], params=dict(self='obj:ClusterParameters'),
         returns='obj:ClusterParameters',
         requires=["not isnone(self._member_points)"],
         ensures=["fresh(result)"] + [c % ('result', 'self.' + c.split('.')[1].split(',')[0]) for c in _SAME_FIELDS] +
                 ["result.graphical_lasso_cost == self.graphical_lasso_cost", "result.log_determinant == self.log_determinant",
                  # the member list is re-sorted by the constructor: a fresh list object with the same contents when ascending
                  "fresh(result._member_points)", "len(result._member_points) == len(self._member_points)",
                  "implies(ascending(self._member_points), eqcontent(result._member_points, self._member_points))",
                  "unchanged(self, self._member_points)"])

contract(MS + 'ClusterParameters.deep_copy', props=['C13', 'C08'], params=dict(self='obj:ClusterParameters'),
         returns='obj:ClusterParameters',
         requires=["not isnone(self._member_points)"],
         ensures=["fresh(result)",
                  ("shares-nothing-mutable", "fresh(result.computed_covariance) and fresh(result.empirical_covariance) and "
                   "fresh(result.inverse_covariance) and fresh(result.stacked_data_mean) and fresh(result.train_inverse) and "
                   "fresh(result._member_points)"),
                  ("arrays-copied-by-value", "eqcontent(result.computed_covariance, self.computed_covariance) and "
                   "eqcontent(result.empirical_covariance, self.empirical_covariance) and "
                   "eqcontent(result.train_inverse, self.train_inverse) and eqcontent(result.stacked_data_mean, self.stacked_data_mean) "
                   "and eqcontent(result.inverse_covariance, self.inverse_covariance)"),
                  "result.graphical_lasso_cost == self.graphical_lasso_cost", "result.log_determinant == self.log_determinant",
                  "len(result._member_points) == len(self._member_points)",
                  "implies(ascending(self._member_points), eqcontent(result._member_points, self._member_points))",
                  "unchanged(self, self._member_points)"])

specfn('membership_ok', "lambda m: forall(0, len(m.clusters), lambda k: not isnone(m.clusters[k]) and "
       "members_ok(m.clusters[k]._member_points, m._point_labels, k))")
specfn('distinct_clusters', "lambda m: forall(lambda k1, k2: implies(0 <= k1 and k1 < k2 and k2 < len(m.clusters), "
       "not same(m.clusters[k1], m.clusters[k2]))) and forall(0, len(m.clusters), lambda k: not isnone(m.clusters[k]))")

_MS_PARAMS = dict(self='obj:ModelState', arguments='obj:UserArguments', clusters='list[obj:ClusterParameters]',
                  label_assignment_cost='real', point_labels='list[int]', point_log_likelihood='arr2[real]',
                  stacked_training_data='arr2[real]')
contract(MS + 'ModelState.__init__', props=['C13'], params=_MS_PARAMS, inline=True, assigns=['self'],
         ghost={'nullable': ['arguments', 'clusters', 'point_labels', 'point_log_likelihood', 'stacked_training_data']})
contract(MS + 'ModelState.point_labels', props=['C13'], params=dict(self='obj:ModelState'), returns='list[int]', inline=True)

contract(MS + 'ModelState.empty_model', props=['C13', 'C09'],
         params=dict(user_args='obj:UserArguments', stacked_training_data='arr2[real]'), returns='obj:ModelState',
         requires=["user_args.num_clusters >= 0"],
         ghost={'comps': {1: dict(kind='list[obj:ClusterParameters]',
                                  inv=["len(_comp1) == i", "forall(0, i, lambda k: fresh(_comp1[k]) and not isnone(_comp1[k]) and "
                                       "fresh(_comp1[k]._member_points) and len(_comp1[k]._member_points) == 0)",
                                       "forall(lambda k1, k2: implies(0 <= k1 and k1 < k2 and k2 < i, not same(_comp1[k1], _comp1[k2])))",
                                       "forall(0, i, lambda k: not same(_comp1[k], _comp1))"])}},
         ensures=["fresh(result)", "same(result.arguments, user_args)", "same(result.stacked_training_data, stacked_training_data)",
                  "isnone(result._point_labels)", "fresh(result.clusters)", "len(result.clusters) == user_args.num_clusters",
                  "distinct_clusters(result)",
                  "forall(0, len(result.clusters), lambda k: fresh(result.clusters[k]) and len(result.clusters[k]._member_points) == 0)",
                  ("def:typestate", "result._phase == 0")])

def _dd(n):
    L = "self._point_labels"
    return [c.replace('@N', n).replace('@L', L) for c in (
        "forall(lambda k: implies(isnone(members[k]), cnt(@L, k, @N) == 0))",
        "forall(lambda k: implies(not isnone(members[k]), fresh(members[k]) and len(members[k]) == cnt(@L, k, @N)))",
        "forall(lambda k, p: implies(0 <= p and p < @N and @L[p] == k, cnt(@L, k, p) < cnt(@L, k, @N)))",
        "forall(lambda k, p: implies(not isnone(members[k]) and 0 <= p and p < @N and @L[p] == k, "
        "members[k][cnt(@L, k, p)] == p))",
        "forall(lambda k, j: implies(not isnone(members[k]) and 0 <= j and j < len(members[k]), "
        "0 <= members[k][j] and members[k][j] < @N and @L[members[k][j]] == k))",
        "forall(lambda k, j1, j2: implies(not isnone(members[k]) and 0 <= j1 and j1 < j2 and j2 < len(members[k]), "
        "members[k][j1] < members[k][j2]))",
        "forall(lambda k1, k2: implies(k1 != k2 and not isnone(members[k1]), not same(members[k1], members[k2])))")]


contract(MS + 'ModelState._update_cluster_membership', props=['C13', 'C08', 'C12', 'C09'],
         params=dict(self='obj:ModelState'),
         requires=["not isnone(self.clusters)", "not isnone(self.arguments)", "len(self.clusters) == self.arguments.num_clusters",
                   "distinct_clusters(self)"],
         assigns=['self.clusters[*]._member_points'],
         ghost={'kind:members': 'ddict[int]'},
         ensures=[("membership-rederived-from-labels", "implies(not isnone(self._point_labels) and len(self._point_labels) > 0, membership_ok(self))"),
                  ("no-labels-means-empty-clusters", "implies(isnone(self._point_labels) or len(self._point_labels) == 0, "
                   "forall(0, len(self.clusters), lambda k: len(self.clusters[k]._member_points) == 0))"),
                  "implies(not isnone(self._point_labels), unchanged(self._point_labels))", "unchanged(self.clusters)"],
         loops={1: dict(inv=["forall(0, _k, lambda k: len(self.clusters[k]._member_points) == 0)"],
                        modifies=['self.clusters[*]._member_points']),
                2: dict(inv=_dd('_k'), modifies=['members']),
                3: dict(inv=["forall(0, cluster_id, lambda k: members_ok(self.clusters[k]._member_points, self._point_labels, k))"]
                        + _dd('len(self._point_labels)'),
                        modifies=['self.clusters[*]._member_points', 'members'])})

contract(MS + 'ModelState.point_labels.setter', props=['C13', 'C08', 'C12', 'C09'],
         params=dict(self='obj:ModelState', new_labels='list[int]'),
         requires=["not isnone(new_labels)", "not isnone(self.clusters)", "not isnone(self.arguments)",
                   "len(self.clusters) == self.arguments.num_clusters", "distinct_clusters(self)"],
         assigns=['self._point_labels', 'self.clusters[*]._member_points'],
         ensures=[("labels-stored", "not isnone(self._point_labels) and len(self._point_labels) == len(new_labels) and "
                   "forall(0, len(new_labels), lambda p: self._point_labels[p] == new_labels[p])"),
                  # the early-out `if new_labels != self._point_labels` makes re-derivation conditional: membership is
                  # consistent afterwards provided it was consistent before or the labelling actually changed
                  ("membership-rederived-immediately", "implies(len(new_labels) > 0 and (old(membership_ok(self)) or "
                   "not old(new_labels == self._point_labels)), membership_ok(self))"),
                  "unchanged(new_labels)", "unchanged(self.clusters)"])

contract(MS + 'ModelState.shallow_copy', props=['C13', 'C08'], params=dict(self='obj:ModelState'), returns='obj:ModelState',
         requires=["not isnone(self.clusters)"],
         ensures=["fresh(result)", "same(result.arguments, self.arguments)", "same(result._point_labels, self._point_labels)",
                  "same(result.stacked_training_data, self.stacked_training_data)",
                  "same(result.point_log_likelihood, self.point_log_likelihood)",
                  "result.label_assignment_cost == self.label_assignment_cost",
                  # a NEW list holding the same cluster objects: replacing an element of the copy cannot reach the source
                  ("cluster-list-is-a-fresh-list-of-the-same-objects", "fresh(result.clusters) and len(result.clusters) == len(self.clusters) "
                   "and forall(0, len(self.clusters), lambda k: same(result.clusters[k], self.clusters[k]))"),
                  "unchanged(self, self.clusters)"])

contract(MS + 'ModelState.deep_copy', props=['C13'], params=dict(self='obj:ModelState'), returns='obj:ModelState',
         requires=["not isnone(self.clusters)", "not isnone(self._point_labels)", "not isnone(self.arguments)",
                   "forall(0, len(self.clusters), lambda k: not isnone(self.clusters[k]) and not isnone(self.clusters[k]._member_points))"],
         ghost={'comps': {1: dict(kind='list[obj:ClusterParameters]',
                                  inv=["len(_comp1) == _k", "forall(0, _k, lambda k: fresh(_comp1[k]) and not isnone(_comp1[k]))",
                                       "forall(0, _k, lambda k: fresh(_comp1[k]._member_points) and fresh(_comp1[k].train_inverse) and "
                                       "fresh(_comp1[k].computed_covariance) and fresh(_comp1[k].empirical_covariance) and "
                                       "fresh(_comp1[k].stacked_data_mean) and fresh(_comp1[k].inverse_covariance))"])}},
         ensures=["fresh(result)",
                  ("shares-nothing-mutable", "fresh(result.clusters) and fresh(result._point_labels) and fresh(result.arguments) and "
                   "fresh(result.stacked_training_data) and fresh(result.point_log_likelihood) and "
                   "forall(0, len(result.clusters), lambda k: fresh(result.clusters[k]) and fresh(result.clusters[k]._member_points) and "
                   "fresh(result.clusters[k].train_inverse) and fresh(result.clusters[k].computed_covariance) and "
                   "fresh(result.clusters[k].empirical_covariance) and fresh(result.clusters[k].stacked_data_mean))"),
                  "len(result.clusters) == len(self.clusters)", "eqcontent(result._point_labels, self._point_labels)",
                  "unchanged(self, self.clusters, self._point_labels)"])

_UA = ['sparsity_weight', 'iteration_limit', 'label_switching_cost', 'min_cluster_size', 'min_meaningful_covariance',
       'num_clusters', 'num_processors', 'window_size', 'biased_covariance']
contract(AR + 'UserArguments.shallow_copy', props=['C13', 'C12'], params=dict(self='obj:UserArguments'), returns='obj:UserArguments',
         ensures=["fresh(result)"] + ["result.%s == self.%s" % (f, f) for f in _UA] + ["unchanged(self)"])
contract(AR + 'UserArguments.deep_copy', props=['C13', 'C12'], params=dict(self='obj:UserArguments'), returns='obj:UserArguments',
         ensures=["fresh(result)"] + ["result.%s == self.%s" % (f, f) for f in _UA] + ["unchanged(self)"])
# array-valued hyper-parameters (matrix lambda, per-pair beta): a deep copy must not share them with its source
contract(AR + 'UserArguments.deep_copy#arrays', props=['C13'], params=dict(self='obj:UserArguments'), returns='obj:UserArguments',
         ghost={'schema': {'UserArguments.sparsity_weight': 'arr2[real]', 'UserArguments.label_switching_cost': 'arr1[real]'}},
         requires=["not isnone(self.sparsity_weight)", "not isnone(self.label_switching_cost)"],
         ensures=["fresh(result)",
                  ("shares-nothing-mutable", "fresh(result.sparsity_weight) and fresh(result.label_switching_cost)"),
                  "eqcontent(result.sparsity_weight, self.sparsity_weight)",
                  "eqcontent(result.label_switching_cost, self.label_switching_cost)", "unchanged(self)"])
contract(AR + 'UserArguments.shallow_copy#arrays', props=['C13'], params=dict(self='obj:UserArguments'), returns='obj:UserArguments',
         ghost={'schema': {'UserArguments.sparsity_weight': 'arr2[real]', 'UserArguments.label_switching_cost': 'arr1[real]'}},
         ensures=["fresh(result)", "same(result.sparsity_weight, self.sparsity_weight)",
                  "same(result.label_switching_cost, self.label_switching_cost)", "unchanged(self)"])

# transfer lemma (pure logic over list contents): a list with the same contents as a correct member list is one too
MEMBERS_TRANSFER = ("forall(lambda l_a, l_b, k: implies(not isnone(l_a) and not isnone(l_b) and eqcontent(l_a, l_b) and "
                    "members_ok(l_b, {labels}, k), members_ok(l_a, {labels}, k)), pat=(len(l_a), len(l_b), cnt({labels}, k, len({labels}))))")
SQUARE_UNIQUE = "forall(lambda a, b: implies(a >= 0 and b >= 0 and a*(a + 1) == b*(b + 1), a == b))"

# every reference reachable from the state exists now (needed to tell the state apart from objects allocated later)
specfn('closed_model', "lambda m: allocated(m) and allocated(m.clusters) and allocated(m._point_labels) and "
       "forall(0, len(m.clusters), lambda k: allocated(m.clusters[k]) and allocated(m.clusters[k]._member_points))")
