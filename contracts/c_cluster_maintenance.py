"""Contracts: fast_ticc.cluster_maintenance  (C08, C12; used by C09, C13, C14)"""
from pyvc.spec import contract, specfn

CM = 'fast_ticc.cluster_maintenance.'

contract(CM + 'update_cluster_member_data_statistics', props=['C12', 'C13', 'C19'],
         params=dict(cluster='obj:ClusterParameters', training_data='arr2[real]', use_biased_covariance='bool'),
         returns='obj:ClusterParameters',
         requires=["not isnone(cluster._member_points)", "len(cluster._member_points) > 0",
                   "forall(0, len(cluster._member_points), lambda i: 0 <= cluster._member_points[i] and "
                   "cluster._member_points[i] < training_data.shape[0])"],
         ensures=["fresh(result)", 
                  # sample covariance / mean of exactly the rows listed in the member list, with the requested divisor
                  ("covariance-of-exactly-the-member-rows", "eqcontent(result.empirical_covariance, "
                   "cov(transpose(rows_of(training_data, cluster._member_points)), use_biased_covariance))"),
                  ("mean-of-exactly-the-member-rows", "eqcontent(result.stacked_data_mean, "
                   "colmean(rows_of(training_data, cluster._member_points)))"),
                  "fresh(result.empirical_covariance) and fresh(result.stacked_data_mean)",
                  ("other-fields-carried-over", "same(result.train_inverse, cluster.train_inverse) and "
                   "same(result.computed_covariance, cluster.computed_covariance) and "
                   "same(result.inverse_covariance, cluster.inverse_covariance) and result.log_determinant == cluster.log_determinant"),
                  ("membership-carried-over", "len(result._member_points) == len(cluster._member_points) and "
                   "implies(ascending(cluster._member_points), eqcontent(result._member_points, cluster._member_points))"),
                  "fresh(result._member_points)",
                  "unchanged(cluster, cluster._member_points, training_data)"])
