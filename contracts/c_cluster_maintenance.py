"""Contracts: fast_ticc.cluster_maintenance  (C08, C12; used by C09, C13, C14)"""
from pyvc.spec import contract, specfn

CM = 'fast_ticc.cluster_maintenance.'

contract(CM + 'update_cluster_member_data_statistics', props=['C12', 'C13', 'C19'],
         params=dict(cluster='obj:ClusterParameters', training_data='arr2[real]', use_biased_covariance='bool'),
         returns='obj:ClusterParameters',
         requires=["not isnone(cluster._member_points)", "len(cluster._member_points) > 0",
                   "forall(0, len(cluster._member_points), lambda i: 0 <= cluster._member_points[i] and "
                   "cluster._member_points[i] < training_data.shape[0])"],
         ensures=["fresh(result)", 
                  # sample covariance / mean of exactly the rows listed in the member list, with the requested divisor
                  ("covariance-of-exactly-the-member-rows", "eqcontent(result.empirical_covariance, "
                   "cov(transpose(rows_of(training_data, cluster._member_points)), use_biased_covariance))"),
                  ("mean-of-exactly-the-member-rows", "eqcontent(result.stacked_data_mean, "
                   "colmean(rows_of(training_data, cluster._member_points)))"),
                  "fresh(result.empirical_covariance) and fresh(result.stacked_data_mean)",
                  ("other-fields-carried-over", "same(result.train_inverse, cluster.train_inverse) and "
                   "same(result.computed_covariance, cluster.computed_covariance) and "
                   "same(result.inverse_covariance, cluster.inverse_covariance) and result.log_determinant == cluster.log_determinant"),
                  ("membership-carried-over", "len(result._member_points) == len(cluster._member_points) and "
                   "implies(ascending(cluster._member_points), eqcontent(result._member_points, cluster._member_points))"),
                  "fresh(result._member_points)",
                  "unchanged(cluster, cluster._member_points, training_data)"])

_STATS_PARTS = [
    "eqcontent({new}.empirical_covariance, cov(transpose(rows_of(training_data, {old}._member_points)), model.arguments.biased_covariance))",
    "eqcontent({new}.stacked_data_mean, colmean(rows_of(training_data, {old}._member_points)))",
    "fresh({new}) and fresh({new}.empirical_covariance) and fresh({new}.stacked_data_mean) and fresh({new}._member_points)",
    "eqcontent({new}._member_points, {old}._member_points)",
    "same({new}.train_inverse, {old}.train_inverse) and same({new}.computed_covariance, {old}.computed_covariance)"]
_STATS_OF = " and ".join(_STATS_PARTS)


def _each(lo, hi, new, old):
    return ["forall(%s, %s, lambda k: %s)" % (lo, hi, p.format(new=new, old=old)) for p in _STATS_PARTS]


contract(CM + 'update_all_cluster_statistics', props=['C12', 'C13', 'C09', 'C19'],
         params=dict(model='obj:ModelState', training_data='arr2[real]'), returns='obj:ModelState',
         requires=["wf(model)", "len(model._point_labels) == training_data.shape[0]",
                   # every cluster owns at least one point (the phase before -- repopulation -- guarantees >= 2 from round 2 on)
                   "forall(0, len(model.clusters), lambda k: len(model.clusters[k]._member_points) > 0)"],
         ghost={'kind:cluster_members': 'pdict[int]'},
         ensures=["fresh(result)", "fresh(result.clusters)", "len(result.clusters) == len(model.clusters)",
                  "same(result._point_labels, model._point_labels)", "same(result.arguments, model.arguments)",
                  ("each-cluster-fitted-to-exactly-its-own-windows",
                   "forall(0, len(model.clusters), lambda k: " + _STATS_OF.format(new='result.clusters[k]', old='model.clusters[k]') + ")"),
                  ("state-given-is-not-altered", "unchanged(model, model.clusters, model._point_labels, training_data) and "
                   "forall(0, len(model.clusters), lambda k: unchanged(model.clusters[k], model.clusters[k]._member_points))"),
                  ("wf:labels-in-range", "forall(0, len(result._point_labels), lambda p: 0 <= result._point_labels[p] and result._point_labels[p] < result.arguments.num_clusters)"),
                  ("wf:K-clusters", "len(result.clusters) == result.arguments.num_clusters"),
                  ("wf:membership", "membership_ok(result)"),
                  ("wf:distinct", "distinct_clusters(result)"),
                  ("wf", "wf(result)")],
         loops={1: dict(inv=[], modifies=['cluster_members']),
                2: dict(inv=["len(updated_model.clusters) == len(model.clusters)",
                             ] + _each('0', 'cluster_id', 'updated_model.clusters[k]', 'model.clusters[k]') + [
                             "forall(cluster_id, len(model.clusters), lambda k: same(updated_model.clusters[k], model.clusters[k]))",
                             "forall(0, cluster_id, lambda k: allocated(updated_model.clusters[k]))",
                             "forall(lambda k1, k2: implies(0 <= k1 and k1 < k2 and k2 < cluster_id, not same(updated_model.clusters[k1], updated_model.clusters[k2])))",
                             "forall(0, cluster_id, lambda k: members_ok(updated_model.clusters[k]._member_points, model._point_labels, k))"],
                        lemmas_end=["members_ok(updated_model.clusters[cluster_id]._member_points, model._point_labels, cluster_id)"] + [p.format(new='updated_model.clusters[cluster_id]', old='model.clusters[cluster_id]') for p in _STATS_PARTS[:2]],
                        modifies=['ref:updated_model.clusters'])})
