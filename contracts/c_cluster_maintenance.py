"""Contracts: fast_ticc.cluster_maintenance  (C08, C12; used by C09, C13, C14)"""
from pyvc.spec import contract, specfn

CM = 'fast_ticc.cluster_maintenance.'

contract(CM + 'update_cluster_member_data_statistics', props=['C12', 'C13', 'C17'],
         params=dict(cluster='obj:ClusterParameters', training_data='arr2[real]', use_biased_covariance='bool'),
         returns='obj:ClusterParameters',
         requires=["not isnone(cluster._member_points)", "len(cluster._member_points) > 0",
                   "forall(0, len(cluster._member_points), lambda i: 0 <= cluster._member_points[i] and "
                   "cluster._member_points[i] < training_data.shape[0])"],
         ensures=["fresh(result)", 
                  # sample covariance / mean of exactly the rows listed in the member list, with the requested divisor
                  ("covariance-of-exactly-the-member-rows", "eqcontent(result.empirical_covariance, "
                   "cov(transpose(rows_of(training_data, cluster._member_points)), use_biased_covariance))"),
                  ("mean-of-exactly-the-member-rows", "eqcontent(result.stacked_data_mean, "
                   "colmean(rows_of(training_data, cluster._member_points)))"),
                  "fresh(result.empirical_covariance) and fresh(result.stacked_data_mean)",
                  ("other-fields-carried-over", "same(result.train_inverse, cluster.train_inverse) and "
                   "same(result.computed_covariance, cluster.computed_covariance) and "
                   "same(result.inverse_covariance, cluster.inverse_covariance) and result.log_determinant == cluster.log_determinant"),
                  ("membership-carried-over", "len(result._member_points) == len(cluster._member_points) and "
                   "implies(ascending(cluster._member_points), eqcontent(result._member_points, cluster._member_points))"),
                  "fresh(result._member_points)",
                  "unchanged(cluster, cluster._member_points, training_data)"])

_STATS_PARTS = [
    "eqcontent({new}.empirical_covariance, cov(transpose(rows_of(training_data, {old}._member_points)), model.arguments.biased_covariance))",
    "eqcontent({new}.stacked_data_mean, colmean(rows_of(training_data, {old}._member_points)))",
    "fresh({new}) and fresh({new}.empirical_covariance) and fresh({new}.stacked_data_mean) and fresh({new}._member_points)",
    "eqcontent({new}._member_points, {old}._member_points)",
    "same({new}.train_inverse, {old}.train_inverse) and same({new}.computed_covariance, {old}.computed_covariance)"]
_STATS_OF = " and ".join(_STATS_PARTS)


def _each(lo, hi, new, old):
    return ["forall(%s, %s, lambda k: %s)" % (lo, hi, p.format(new=new, old=old)) for p in _STATS_PARTS]


contract(CM + 'update_all_cluster_statistics', props=['C12', 'C13', 'C09', 'C17'],
         params=dict(model='obj:ModelState', training_data='arr2[real]'), returns='obj:ModelState',
         requires=["wf(model)", "len(model._point_labels) == training_data.shape[0]",
                   ("typestate:fresh-labelling-or-repopulated", "model._phase == 0 or model._phase == 1 or model._phase == 4"),
                   # every cluster owns at least one point: update_cluster_member_data_statistics asserts it, so a run in which it
                   # fails does not complete (size accounting after repopulation is covered by the bounded check of C08)
                   ("completes:every-cluster-owns-a-point", "forall(0, len(model.clusters), lambda k: len(model.clusters[k]._member_points) > 0)")],
         ghost={'kind:cluster_members': 'pdict[int]', 'cumulative_posts': True},
         ensures=["fresh(result)", "fresh(result.clusters)", "len(result.clusters) == len(model.clusters)",
                  "same(result._point_labels, model._point_labels)", "same(result.arguments, model.arguments)",
                  ("each-cluster-fitted-to-exactly-its-own-windows",
                   "forall(0, len(model.clusters), lambda k: " + _STATS_OF.format(new='result.clusters[k]', old='model.clusters[k]') + ")"),
                  ("state-given-is-not-altered", "unchanged(model, model.clusters, model._point_labels, training_data) and "
                   "forall(0, len(model.clusters), lambda k: unchanged(model.clusters[k], model.clusters[k]._member_points))"),
                  ("wf:labels-in-range", "forall(0, len(result._point_labels), lambda p: 0 <= result._point_labels[p] and result._point_labels[p] < result.arguments.num_clusters)"),
                  ("wf:K-clusters", "len(result.clusters) == result.arguments.num_clusters"),
                  ("wf:membership", "membership_ok(result)"),
                  ("wf:distinct", "distinct_clusters(result)"),
                  ("wf", "wf(result)"), ("def:typestate", "result._phase == 2")],
         loops={1: dict(inv=[], modifies=['cluster_members']),
                2: dict(inv=["len(updated_model.clusters) == len(model.clusters)",
                             ] + _each('0', 'cluster_id', 'updated_model.clusters[k]', 'model.clusters[k]') + [
                             "forall(cluster_id, len(model.clusters), lambda k: same(updated_model.clusters[k], model.clusters[k]))",
                             "forall(0, cluster_id, lambda k: allocated(updated_model.clusters[k]))",
                             "forall(lambda k1, k2: implies(0 <= k1 and k1 < k2 and k2 < cluster_id, not same(updated_model.clusters[k1], updated_model.clusters[k2])))",
                             "forall(0, cluster_id, lambda k: members_ok(updated_model.clusters[k]._member_points, model._point_labels, k))"],
                        lemmas_end=["members_ok(updated_model.clusters[cluster_id]._member_points, model._point_labels, cluster_id)"] + [p.format(new='updated_model.clusters[cluster_id]', old='model.clusters[cluster_id]') for p in _STATS_PARTS[:2]],
                        modifies=['ref:updated_model.clusters'])})

specfn('csize', "lambda m, k: len(m.clusters[k]._member_points)")
_M = "model.arguments.min_cluster_size"

contract(CM + '_find_point_donor', props=['C08', 'C20'],
         params=dict(model='obj:ModelState', potential_donor_ids='list[int]'), returns='tuple[int,list[int]]',
         requires=["not isnone(model.clusters)", "not isnone(model.arguments)",
                   "forall(0, len(potential_donor_ids), lambda j: 0 <= potential_donor_ids[j] and potential_donor_ids[j] < len(model.clusters))",
                   "forall(0, len(model.clusters), lambda k: not isnone(model.clusters[k]) and not isnone(model.clusters[k]._member_points))"],
         # the first candidate decides: it is returned when it holds >= 2m points, otherwise nothing is
         raises={'RuntimeError': "len(potential_donor_ids) == 0 or csize(model, potential_donor_ids[0]) < 2 * " + _M},
         ensures=[("donor-is-first-candidate", "result[0] == potential_donor_ids[0]"),
                  ("donor-has-at-least-2m-points", "csize(model, result[0]) >= 2 * " + _M),
                  ("donor-stays-in-pool-iff-it-can-give-again", "ite(csize(model, result[0]) >= 3 * " + _M + ", "
                   "len(result[1]) == len(potential_donor_ids) and forall(0, len(result[1]), lambda j: result[1][j] == potential_donor_ids[j]), "
                   "len(result[1]) == len(potential_donor_ids) - 1 and forall(0, len(result[1]), lambda j: result[1][j] == potential_donor_ids[j + 1]))"),
                  "fresh(result[1])", "unchanged(potential_donor_ids, model)"],
         loops={1: dict(inv=["len(remaining_donors) <= len(potential_donor_ids)",
                             "forall(0, len(remaining_donors), lambda j: remaining_donors[j] == potential_donor_ids[j])",
                             "len(remaining_donors) == len(potential_donor_ids) or "
                             "(len(potential_donor_ids) > 0 and csize(model, potential_donor_ids[0]) < 2 * " + _M + ")",
                             "fresh(remaining_donors)"],
                        decreases="len(remaining_donors)", modifies=['remaining_donors'])})

contract(CM + '_move_random_points', props=['C08'],
         params=dict(model='obj:ModelState', donor_cluster_id='int', recipient_cluster_id='int'), returns='list[int]',
         requires=["wf(model)", "0 <= donor_cluster_id and donor_cluster_id < len(model.clusters)",
                   "0 <= recipient_cluster_id and recipient_cluster_id < len(model.clusters)",
                   "donor_cluster_id != recipient_cluster_id", _M + " >= 1",
                   "csize(model, donor_cluster_id) >= " + _M],
         ghost={'returns': dict(S='donated_point_ids'), 'return_kinds': dict(S='list[int]')},
         ensures=["fresh(result)", "len(result) == len(model._point_labels)",
                  ("exactly-m-points-sampled", "len(S) == " + _M + " and forall(lambda i, j: implies(0 <= i and i < j and j < len(S), S[i] != S[j]))"),
                  ("sampled-points-were-in-the-donor-and-move-to-the-recipient", "forall(0, len(S), lambda j: 0 <= S[j] and S[j] < len(result) and "
                   "model._point_labels[S[j]] == donor_cluster_id and result[S[j]] == recipient_cluster_id)"),
                  ("every-other-label-is-kept", "forall(0, len(result), lambda p: result[p] == model._point_labels[p] or "
                   "(model._point_labels[p] == donor_cluster_id and result[p] == recipient_cluster_id))"),
                  ("labels-stay-in-range", "forall(0, len(result), lambda p: 0 <= result[p] and result[p] < len(model.clusters))"),
                  # size accounting: exactly m points leave the donor, exactly m reach the recipient, every other cluster keeps its size
                  ("recipient-gains-exactly-m", "cnt(result, recipient_cluster_id, len(result)) == "
                   "cnt(model._point_labels, recipient_cluster_id, len(model._point_labels)) + " + _M),
                  ("donor-loses-exactly-m", "cnt(result, donor_cluster_id, len(result)) == "
                   "cnt(model._point_labels, donor_cluster_id, len(model._point_labels)) - " + _M),
                  ("other-clusters-keep-their-size", "forall(lambda k: implies(k != donor_cluster_id and k != recipient_cluster_id, "
                   "cnt(result, k, len(result)) == cnt(model._point_labels, k, len(model._point_labels))))"),
                  "unchanged(model, model._point_labels)"],
         loops={1: dict(inv=["len(new_point_labels) == len(model._point_labels)",
                             "cnt(new_point_labels, recipient_cluster_id, len(new_point_labels)) == "
                             "cnt(model._point_labels, recipient_cluster_id, len(model._point_labels)) + _k",
                             "cnt(new_point_labels, donor_cluster_id, len(new_point_labels)) == "
                             "cnt(model._point_labels, donor_cluster_id, len(model._point_labels)) - _k",
                             "forall(lambda k: implies(k != donor_cluster_id and k != recipient_cluster_id, "
                             "cnt(new_point_labels, k, len(new_point_labels)) == cnt(model._point_labels, k, len(model._point_labels))))",
                             "forall(0, _k, lambda j: new_point_labels[donated_point_ids[j]] == recipient_cluster_id)",
                             "forall(0, len(new_point_labels), lambda p: new_point_labels[p] == model._point_labels[p] or "
                             "(model._point_labels[p] == donor_cluster_id and new_point_labels[p] == recipient_cluster_id))",
                             "forall(_k, len(donated_point_ids), lambda j: new_point_labels[donated_point_ids[j]] == donor_cluster_id)"],
                        modifies=['new_point_labels'])})

_ELIG = "csize(model, %s) >= 2 * " + _M
contract(CM + '_find_ranked_donor_cluster_ids', props=['C08'],
         params=dict(model='obj:ModelState'), returns='list[int]',
         requires=["not isnone(model.clusters)", "not isnone(model.arguments)",
                   "forall(0, len(model.clusters), lambda k: not isnone(model.clusters[k]) and not isnone(model.clusters[k]._member_points) "
                   "and not isnone(model.clusters[k].computed_covariance))"],
         ghost={'comps': {1: dict(kind='list[int]',
                                  inv=["forall(0, len(_comp1), lambda j: 0 <= _comp1[j] and _comp1[j] < i and " + (_ELIG % "_comp1[j]") + ")",
                                       "forall(lambda j1, j2: implies(0 <= j1 and j1 < j2 and j2 < len(_comp1), _comp1[j1] < _comp1[j2]))",
                                       "forall(lambda q: implies(0 <= q and q < i and " + (_ELIG % "q") + ", "
                                       "exists(0, len(_comp1), lambda j: _comp1[j] == q)))"])},
                'returns': dict(spread='cluster_spread'), 'return_kinds': dict(spread='list[real]')},
         ensures=[("only-clusters-with-at-least-2m-points", "forall(0, len(result), lambda j: 0 <= result[j] and result[j] < len(model.clusters) and "
                   + (_ELIG % "result[j]") + ")"),
                  ("every-such-cluster-is-listed", "forall(lambda q: implies(0 <= q and q < len(model.clusters) and " + (_ELIG % "q") + ", "
                   "exists(0, len(result), lambda j: result[j] == q)))"),
                  ("no-duplicates", "forall(lambda j1, j2: implies(0 <= j1 and j1 < j2 and j2 < len(result), result[j1] != result[j2]))"),
                  ("ordered-by-decreasing-spread", "len(spread) == len(model.clusters) and "
                   "forall(lambda j1, j2: implies(0 <= j1 and j1 < j2 and j2 < len(result), spread[result[j1]] >= spread[result[j2]]))"),
                  ("spread-is-the-norm-of-the-computed-covariance", "forall(0, len(model.clusters), lambda k: spread[k] == "
                   "norm2d(model.clusters[k].computed_covariance))"),
                  "fresh(result)", "unchanged(model)"])

_NL, _OL = "new_model._point_labels", "model._point_labels"
_MOVED = ("forall(0, len({ol}), lambda p: {nl}[p] == {ol}[p] or (csize(model, {ol}[p]) >= 2 * " + _M + " and csize(model, {nl}[p]) < 2))")
_MODEL_UNCHANGED = ("unchanged(model, model.clusters, model._point_labels) and "
                    "forall(0, len(model.clusters), lambda k: unchanged(model.clusters[k], model.clusters[k]._member_points))")

contract(CM + 'repopulate_empty_clusters', props=['C08', 'C13', 'C09', 'C20'],
         params=dict(model='obj:ModelState'), returns='obj:ModelState',
         requires=["wf(model)", _M + " >= 1", ("typestate:relabelled", "model._phase == 4"),
                   "forall(0, len(model.clusters), lambda k: not isnone(model.clusters[k].computed_covariance))"],
         # RuntimeError (donor shortage) is raised by _find_point_donor when the pool's first candidate has < 2m points;
         # the state given is untouched in that case as well
         raises={'RuntimeError': None},
         ghost={
                # size accounting (needs a counting argument over the relabelled points): bounded run-time check only
                'native_ensures': [
                    ("native:underpopulated-clusters-now-have-at-least-m",
                     "all(sizes(result._point_labels, len(model.clusters))[k] >= model.arguments.min_cluster_size "
                     "for k in range(len(model.clusters)) if sizes(model._point_labels, len(model.clusters))[k] < 2)"),
                    ("native:donors-had-2m-and-keep-at-least-m",
                     "all(sizes(model._point_labels, len(model.clusters))[k] >= 2 * model.arguments.min_cluster_size and "
                     "sizes(result._point_labels, len(model.clusters))[k] >= model.arguments.min_cluster_size "
                     "for k in range(len(model.clusters)) if sizes(result._point_labels, len(model.clusters))[k] < "
                     "sizes(model._point_labels, len(model.clusters))[k])"),
                    ("native:exactly-m-points-per-refill",
                     "all((sizes(result._point_labels, len(model.clusters))[k] - sizes(model._point_labels, len(model.clusters))[k]) "
                     "% model.arguments.min_cluster_size == 0 for k in range(len(model.clusters)))"),
                    ("native:clusters-neither-donor-nor-recipient-untouched",
                     "all(result.clusters[k].member_points == model.clusters[k].member_points for k in range(len(model.clusters)) "
                     "if sizes(result._point_labels, len(model.clusters))[k] == sizes(model._point_labels, len(model.clusters))[k])")],
                'xensures': {'RuntimeError': [("caller-state-not-modified-on-error", _MODEL_UNCHANGED)]},
                'comps': {1: dict(kind='list[obj:ClusterParameters]',
                                  lemmas_end=["members_ok(model.clusters[_k]._member_points, model._point_labels, _k)",
                                              "ascending(model.clusters[_k]._member_points)",
                                              "eqcontent(_comp1[_k]._member_points, model.clusters[_k]._member_points)"],
                                  inv=["len(_comp1) == _k",
                                       "forall(0, _k, lambda k: fresh(_comp1[k]) and allocated(_comp1[k]) and fresh(_comp1[k]._member_points))",
                                       "forall(0, _k, lambda k: not same(_comp1[k]._member_points, _comp1))",
                                       "forall(0, _k, lambda k: len(_comp1[k]._member_points) == len(model.clusters[k]._member_points))",
                                       "forall(lambda k, j: implies(0 <= k and k < _k and 0 <= j and j < len(model.clusters[k]._member_points), "
                                       "_comp1[k]._member_points[j] == model.clusters[k]._member_points[j]))",
                                       "forall(0, _k, lambda k: fresh(_comp1[k].computed_covariance) and not isnone(_comp1[k].computed_covariance))",
                                       "forall(lambda k1, k2: implies(0 <= k1 and k1 < k2 and k2 < _k, not same(_comp1[k1], _comp1[k2])))"])}},
         ensures=[("identity-when-nothing-to-repopulate", "implies(forall(0, len(model.clusters), lambda k: csize(model, k) >= 2), same(result, model))"),
                  ("new-state-otherwise", "implies(not same(result, model), fresh(result) and fresh(result.clusters))"),
                  ("same-number-of-points-and-clusters", "len(result._point_labels) == len(model._point_labels) and "
                   "len(result.clusters) == len(model.clusters) and same(result.arguments, model.arguments)"),
                  ("points-move-only-from-a-2m-donor-into-an-underpopulated-cluster", _MOVED.format(nl='result._point_labels', ol=_OL)),
                  ("result-is-well-formed", "wf(result)"),
                  ("underpopulated-clusters-gain-exactly-m-and-so-hold-at-least-m", "forall(0, len(model.clusters), lambda k: "
                   "implies(csize(model, k) < 2, csize(result, k) == csize(model, k) + " + _M + " and csize(result, k) >= " + _M + "))"),
                  ("donors-had-2m-and-keep-at-least-m", "forall(0, len(model.clusters), lambda k: implies(csize(result, k) < csize(model, k), "
                   "csize(model, k) >= 2 * " + _M + " and csize(result, k) >= " + _M + "))"),
                  ("no-other-cluster-grows", "forall(0, len(model.clusters), lambda k: implies(csize(model, k) >= 2, csize(result, k) <= csize(model, k)))"),
                  ("def:typestate", "result._phase == ite(same(result, model), model._phase, 1)"),
                  ("caller-state-not-modified", _MODEL_UNCHANGED)],
         loops={1: dict(inv=["forall(lambda k: in_set(k, clusters_to_repopulate) == (0 <= k and k < _k and csize(model, k) < 2))",
                             "len(clusters_to_repopulate) >= 0",
                             "implies(len(clusters_to_repopulate) == 0, forall(0, _k, lambda k: csize(model, k) >= 2))",
                             "implies(forall(0, _k, lambda k: csize(model, k) >= 2), len(clusters_to_repopulate) == 0)"],
                        modifies=['clusters_to_repopulate']),
                2: dict(inv=["wf(new_model)", "fresh(new_model)", "fresh(new_model.clusters)",
                             "forall(0, len(new_model.clusters), lambda k: fresh(new_model.clusters[k]))",
                             "len(new_model.clusters) == len(model.clusters)", "same(new_model.arguments, model.arguments)",
                             "len(%s) == len(%s)" % (_NL, _OL),
                             _MOVED.format(nl=_NL, ol=_OL),
                             "forall(0, len(remaining_donors), lambda j: 0 <= remaining_donors[j] and remaining_donors[j] < len(model.clusters) "
                             "and csize(model, remaining_donors[j]) >= 2 * " + _M + ")",
                             "forall(lambda k: implies(in_set(k, _visited), in_set(k, clusters_to_repopulate)))",
                             # size accounting (C08), stated over label counts (cluster sizes follow from wf): refilled clusters
                             # gained exactly m, donors had 2m and keep m, nothing else changes size
                             "forall(0, len(model.clusters), lambda k: implies(in_set(k, _visited), cnt(new_model._point_labels, k, len(new_model._point_labels)) == cnt(model._point_labels, k, len(model._point_labels)) + model.arguments.min_cluster_size))",
                             "forall(0, len(model.clusters), lambda k: implies(not in_set(k, _visited), cnt(new_model._point_labels, k, len(new_model._point_labels)) <= cnt(model._point_labels, k, len(model._point_labels))))",
                             "forall(0, len(model.clusters), lambda k: implies(cnt(new_model._point_labels, k, len(new_model._point_labels)) < cnt(model._point_labels, k, len(model._point_labels)), cnt(model._point_labels, k, len(model._point_labels)) >= 2 * model.arguments.min_cluster_size and cnt(new_model._point_labels, k, len(new_model._point_labels)) >= model.arguments.min_cluster_size))",
                             "forall(0, len(model.clusters), lambda k: implies(not in_set(k, _visited) and cnt(model._point_labels, k, len(model._point_labels)) < 2 * model.arguments.min_cluster_size, cnt(new_model._point_labels, k, len(new_model._point_labels)) == cnt(model._point_labels, k, len(model._point_labels))))"],
                        body_ghost={'nl0': 'new_model._point_labels'},
                        assume_lemmas=[("cnt-ext(stored labels, moved labels)", "cnt_ext(new_model._point_labels, updated_point_labels)")],
                        lemmas_end=[("stored-labels-are-the-moved-labels", "len(new_model._point_labels) == len(updated_point_labels) and "
                                     "forall(0, len(updated_point_labels), lambda p: new_model._point_labels[p] == updated_point_labels[p])"),
                                    ("same-counts-as-the-moved-labels", "forall(lambda k: cnt(new_model._point_labels, k, len(new_model._point_labels)) == "
                                     "cnt(updated_point_labels, k, len(updated_point_labels)))"),
                                    ("recipient-count", "cnt(new_model._point_labels, empty_cluster_id, len(new_model._point_labels)) == "
                                     "cnt(nl0, empty_cluster_id, len(nl0)) + " + _M),
                                    ("donor-count", "cnt(new_model._point_labels, donor_cluster_id, len(new_model._point_labels)) == "
                                     "cnt(nl0, donor_cluster_id, len(nl0)) - " + _M),
                                    ("other-counts", "forall(lambda k: implies(k != donor_cluster_id and k != empty_cluster_id, "
                                     "cnt(new_model._point_labels, k, len(new_model._point_labels)) == cnt(nl0, k, len(nl0))))")],
                        modifies=['new_model._point_labels', 'new_model.clusters[*]._member_points'])})
