"""Sidecar contracts for the functions of /repo/src/fast_ticc (keyed by qualified name)."""
import importlib
MODULES = ['c_unique_values', 'c_matrix_compression', 'c_data_preparation', 'c_label_assignment', 'c_solver', 'c_model_state', 'c_cluster_maintenance', 'c_graphical_lasso', 'c_likelihood', 'c_cluster_metrics', 'c_main_loop', 'c_front_end', 'c_native_extra', 'c_structural', 'c_bounded', 'c_fp']
def load_all():
    for m in MODULES:
        importlib.import_module('contracts.' + m)
