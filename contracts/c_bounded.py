"""Property-level bounded stand-ins (run-time checks of the real code; NEVER counted as proved).

They cover the clauses no contract within reach decides: convergence within the iteration budget, IEEE (not real) arithmetic
at extreme scale, real process pools, real Numba compilation, read-only buffers, injected worker faults.  Each one runs
native/bounded.py under the repository's own interpreter against /repo/src; a failure is reported as an ordinary violation
with the failing input in the replay file, tagged with the property it belongs to."""
from pyvc import spec as S
import json
import os
import subprocess

NATIVE_PY = '/venv/bin/python'
VERIF = os.path.dirname(os.path.dirname(os.path.abspath(__file__)))


def run_bounded(name, tier, seed, timeout=3000):
    """property-level bounded stand-in: native/bounded.py under the repository's interpreter, against /repo/src"""
    cmd = [NATIVE_PY, os.path.join(VERIF, 'native', 'bounded.py'), name, tier, str(seed)]
    env = dict(os.environ)
    env['PYTHONPATH'] = os.environ.get('PYVC_REPO_SRC', '/repo/src')
    try:
        p = subprocess.run(cmd, capture_output=True, text=True, timeout=timeout, env=env)
        line = [l for l in p.stdout.splitlines() if l.startswith('{')]
        if not line:
            return dict(kind='bounded', name=name, cases=0, failing=[], error='no result: ' + p.stderr[-800:])
        return json.loads(line[-1])
    except subprocess.TimeoutExpired:
        return dict(kind='bounded', name=name, cases=0, failing=[], error='timed out')


def _run(name):
    return lambda tier, seed: run_bounded(name, tier, seed)


S.bounded('admm', ['C02', 'C03'], _run('admm'))
S.bounded('end_to_end', ['C03', 'C04', 'C06'], _run('end_to_end'))
S.bounded('reproducibility', ['C14'], _run('reproducibility'))
S.bounded('jit_differential', ['C15', 'C01', 'C05'], _run('jit_differential'))
S.bounded('readonly_inputs', ['C19'], _run('readonly_inputs'))
S.bounded('fault_injection', ['C20'], _run('fault_injection'))
S.bounded('forms_equivalence', ['C18'], _run('forms_equivalence'))
S.bounded('chi_members', ['C17'], _run('chi_members'))
S.bounded('phase_trace', ['C03', 'C09', 'C12', 'C13', 'C16'], _run('phase_trace'))
