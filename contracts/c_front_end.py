"""Contracts: fast_ticc.front_end  (C04, C07, C19, C20)"""
from pyvc.spec import contract, specfn
from contracts.c_main_loop import _RES_FIELDS

FE = 'fast_ticc.front_end.'

_HYPER = dict(window_size='int', num_clusters='int', sparsity_weight='real', label_switching_cost='real', iteration_limit='int',
              min_meaningful_covariance='real', num_processors='int', min_cluster_size='int', biased_covariance='bool')
_HYPER_OK = ["iteration_limit > 0", "num_clusters >= 2 and num_clusters <= 65536", "window_size >= 1", "min_cluster_size >= 1",
             "sparsity_weight >= 0", "label_switching_cost >= 0", "forall(lambda t, x_e: spd_compressed_task(t, x_e))"]

_F = "((window_size - 1) // 2)"
contract(FE + 'ticc_labels', props=['C04', 'C19', 'C20', 'C07', 'C18'],
         params=dict(data_series='arr2[real]', **_HYPER), returns='obj:SingleDataSeriesResult',
         requires=_HYPER_OK + ["window_size <= data_series.shape[0]", "data_series.shape[1] >= 1",
                               "data_series.shape[1] * window_size < 67108864",
                               # ghost: the stacking contract gives cols == N*W; sensors() names N
                               "forall(lambda a_w: True)"],
         raises={'WorkerError': None, 'RuntimeError': None},
         axioms=[],
         ghost={'cumulative_posts': True,
                'xensures': {'WorkerError': [("caller-data-untouched", "unchanged(data_series)")],
                             'RuntimeError': [("caller-data-untouched", "unchanged(data_series)")]}},
         ensures=[("one-label-per-input-row", "len(result.point_labels) == data_series.shape[0]"),
                  ("front-margin-is-floor-(W-1)/2", "forall(0, " + _F + ", lambda t: result.point_labels[t] == -1)"),
                  ("back-margin-is-the-rest-of-W-1", "forall(data_series.shape[0] - ((window_size - 1) - " + _F + "), data_series.shape[0], "
                   "lambda t: result.point_labels[t] == -1)"),
                  ("interior-labels-in-range", "forall(0, data_series.shape[0] - window_size + 1, "
                   "lambda i: 0 <= result.point_labels[" + _F + " + i] and result.point_labels[" + _F + " + i] < num_clusters)"),
                  ("K-mrfs-echo-K-and-W", "len(result.markov_random_fields) == num_clusters and result.num_clusters == num_clusters and "
                   "result.window_size == window_size"),
                  ("no-result-after-a-worker-failure", "not _any_task_failed"),
                  "fresh(result)", "unchanged(data_series)"])

# wrong kind of input for the single-series front end: TypeError naming the joint front end
contract(FE + 'ticc_labels#list', props=['C20'],
         params=dict(data_series='list[arr2[real]]', **_HYPER), returns='obj:SingleDataSeriesResult',
         raises={'TypeError': "True"}, ensures=[])

_AGG = ['bayesian_information_criterion', 'calinski_harabasz_index', 'label_assignment_cost', 'overall_log_likelihood',
        'overall_log_likelihood_mean', 'overall_log_likelihood_median', 'num_clusters', 'window_size']
_AGG_REF = ['cluster_log_likelihood_mean', 'cluster_log_likelihood_median', 'all_log_likelihood', 'markov_random_fields']
_WM = "master_result.window_size"
_FM = "((" + _WM + " - 1) // 2)"
contract(FE + '_split_combined_result', props=['C04', 'C10', 'C06', 'C07'],
         params=dict(master_result='obj:SingleDataSeriesResult', stacked_data_sizes='list[int]', data_series='list[arr2[real]]'),
         returns='obj:MultipleDataSeriesResult',
         requires=[_WM + " >= 1", "not isnone(master_result.point_labels)", "len(data_series) == len(stacked_data_sizes)",
                   "forall(0, len(stacked_data_sizes), lambda s: stacked_data_sizes[s] >= 0 and not isnone(data_series[s]) and "
                   "data_series[s].shape[0] == stacked_data_sizes[s] + " + _WM + " - 1)",
                   "len(master_result.point_labels) == psum(stacked_data_sizes, len(stacked_data_sizes))"],
         ghost={'kind:padded_label_sets': 'list[list[int]]'},
         ensures=["fresh(result)",
                  ("one-label-list-per-series-in-input-order", "len(result.point_labels) == len(data_series)"),
                  ("each-list-as-long-as-its-own-series", "forall(0, len(data_series), lambda s: len(result.point_labels[s]) == data_series[s].shape[0])"),
                  ("interior-of-list-s-is-slice-s-of-the-joint-labelling", "forall(lambda s, i: implies(0 <= s and s < len(data_series) and 0 <= i and "
                   "i < stacked_data_sizes[s], result.point_labels[s][" + _FM + " + i] == "
                   "master_result.point_labels[psum(stacked_data_sizes, s) + i]))"),
                  ("margins-are-unlabelled", "forall(lambda s, i: implies(0 <= s and s < len(data_series) and 0 <= i and "
                   "(i < " + _FM + " or i >= " + _FM + " + stacked_data_sizes[s]) and i < data_series[s].shape[0], result.point_labels[s][i] == -1))"),
                  ("aggregate-fields-copied-unchanged", " and ".join("result.%s == master_result.%s" % (f, f) for f in _AGG) + " and " +
                   " and ".join("same(result.%s, master_result.%s)" % (f, f) for f in _AGG_REF)),
                  "unchanged(master_result, stacked_data_sizes)"],
         loops={1: dict(inv=["len(padded_label_sets) == _k", "fresh(padded_label_sets)",
                             "forall(0, _k, lambda s: fresh(padded_label_sets[s]) and allocated(padded_label_sets[s]) and "
                             "not same(padded_label_sets[s], padded_label_sets) and len(padded_label_sets[s]) == data_series[s].shape[0])",
                             "forall(lambda s, i: implies(0 <= s and s < _k and 0 <= i and i < stacked_data_sizes[s], "
                             "padded_label_sets[s][" + _FM + " + i] == master_result.point_labels[psum(stacked_data_sizes, s) + i]))",
                             "forall(lambda s, i: implies(0 <= s and s < _k and 0 <= i and (i < " + _FM + " or i >= " + _FM + " + stacked_data_sizes[s]) and "
                             "i < data_series[s].shape[0], padded_label_sets[s][i] == -1))"],
                        modifies=['padded_label_sets'])})

contract(FE + 'ticc_joint_labels', props=['C04', 'C07', 'C19', 'C20', 'C18'],
         params=dict(data_series='list[arr2[real]]', **_HYPER), returns='obj:MultipleDataSeriesResult',
         requires=_HYPER_OK + ["len(data_series) >= 1",
                               "forall(0, len(data_series), lambda s: not isnone(data_series[s]) and window_size <= data_series[s].shape[0] and "
                               "data_series[s].shape[1] == data_series[0].shape[1])",
                               "data_series[0].shape[1] >= 1", "data_series[0].shape[1] * window_size < 67108864",
                               ],
         raises={'WorkerError': None, 'RuntimeError': None},
         ghost={'cumulative_posts': True,
                'xensures': {'WorkerError': [("caller-data-untouched", "unchanged(data_series)")],
                             'RuntimeError': [("caller-data-untouched", "unchanged(data_series)")]}},
         ensures=[("one-label-list-per-series-in-input-order", "len(result.point_labels) == len(data_series)"),
                  ("each-list-as-long-as-its-own-series", "forall(0, len(data_series), lambda s: len(result.point_labels[s]) == data_series[s].shape[0])"),
                  ("K-mrfs-echo-K-and-W", "len(result.markov_random_fields) == num_clusters and result.num_clusters == num_clusters and "
                   "result.window_size == window_size"),
                  ("no-result-after-a-worker-failure", "not _any_task_failed"),
                  "fresh(result)", "unchanged(data_series)"])

# wrong kind of input for the joint front end: TypeError naming the single-series front end
contract(FE + 'ticc_joint_labels#1d', props=['C20'],
         params=dict(data_series='list[arr1[real]]', **_HYPER), returns='obj:MultipleDataSeriesResult',
         requires=["len(data_series) >= 1"], raises={'TypeError': "True"}, ensures=[])
