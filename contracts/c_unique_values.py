"""Contracts: fast_ticc.admm.unique_values  (C11; used by C02, C18)"""
from pyvc.spec import contract, specfn, lemma

U = 'fast_ticc.admm.unique_values.'

# row-major rank of (r, c), r <= c, in the upper triangle of an n x n matrix
specfn('tri_rank', "lambda r, c, n: r*n - (r*(r+1))//2 + c", sig=(['int', 'int', 'int'], 'int'), uf=True,
       # derived (division-free) form, proved from the definition in lemmas/l_index.py: r(r+1) is even
       axioms=["forall(lambda r, c, n: 2*tri_rank(r, c, n) == 2*r*n - r*(r+1) + 2*c)"])

contract(U + '_size_including_this_row', props=['C11'], ghost={'reveal': ['tri_rank']},
         params=dict(r='int', uncompressed_size='int'), returns='real',
         requires=["0 <= r", "r < uncompressed_size", "uncompressed_size < 67108864"],
         # number of upper-triangle elements in rows 0..r  (a float in the code: r*(r+1)/2 is exact in IEEE
         # arithmetic for r < 2**26, see float-exactness obligations)
         ensures=["2*result == 2*uncompressed_size*(r+1) - r*(r+1)",
                  "result == tri_rank(r, uncompressed_size - 1, uncompressed_size) + 1"])

contract(U + '_elements_in_row_after_target', props=['C11'],
         params=dict(c='int', full_row_length='int'), returns='int',
         ensures=["result == full_row_length - 1 - c"])

contract(U + '_compressed_index', props=['C11', 'C02'], ghost={'reveal': ['tri_rank']},
         params=dict(row='int', column='int', uncompressed_size='int'), returns='int',
         requires=["0 <= row", "column < uncompressed_size", "uncompressed_size < 67108864"],
         raises={'IndexError': "column < row"},
         ensures=["result == tri_rank(row, column, uncompressed_size)",
                  "0 <= result", "2*result < uncompressed_size*(uncompressed_size+1)"])

contract(U + '_block_start_coordinates', props=['C11', 'C02'],
         params=dict(block_id='int', block_size='int', window_size='int'), returns='list[tuple[int,int]]',
         raises={'IndexError': "block_id < 0 or block_id >= window_size",
                 'ValueError': "not (block_id < 0 or block_id >= window_size) and (block_size <= 0 or window_size <= 0)"},
         ensures=["len(result) == window_size - block_id",
                  "forall(0, len(result), lambda j: result[j][0] == j*block_size and "
                  "result[j][1] == (block_id + j)*block_size)",
                  "fresh(result)"],
         ghost={'kind:corner_coordinates': 'list[tuple[int,int]]'},
         loops={1: dict(inv=["len(corner_coordinates) == i",
                             "forall(0, i, lambda j: corner_coordinates[j][0] == start_row + j*block_size and "
                             "corner_coordinates[j][1] == start_column + j*block_size)"],
                        modifies=["corner_coordinates"])})

_CLASS_PRE = ["0 <= block_id", "block_id < num_blocks", "block_size > 0",
              "0 <= row_in_block", "row_in_block < block_size", "0 <= col_in_block", "col_in_block < block_size"]
_P5 = dict(block_id='int', row_in_block='int', col_in_block='int', block_size='int', num_blocks='int')
_RAISES5 = {'IndexError': "block_id < 0 or block_id >= num_blocks",
            'ValueError': "not (block_id < 0 or block_id >= num_blocks) and (block_size <= 0 or num_blocks <= 0)"}

contract(U + '_unique_variable_locations', props=['C11', 'C02'],
         params=_P5, returns='list[tuple[int,int]]', raises=_RAISES5,
         ensures=["len(result) == num_blocks - block_id",
                  "forall(0, len(result), lambda j: result[j][0] == j*block_size + row_in_block and "
                  "result[j][1] == (block_id + j)*block_size + col_in_block)",
                  "fresh(result)"])

# positions of Toeplitz class (block_id, row_in_block, col_in_block), as compressed indices
contract(U + 'locations_compressed', props=['C11', 'C02'],
         params=_P5, returns='list[int]',
         requires=_CLASS_PRE + ["block_id > 0 or row_in_block <= col_in_block",
                                "block_size * num_blocks < 67108864"],
         ensures=["len(result) == num_blocks - block_id",
                  "forall(0, len(result), lambda j: result[j] == tri_rank(j*block_size + row_in_block, "
                  "(block_id + j)*block_size + col_in_block, block_size*num_blocks))",
                  "forall(0, len(result), lambda j: 0 <= result[j] and "
                  "2*result[j] < block_size*num_blocks*(block_size*num_blocks + 1))",
                  "fresh(result)"])

contract(U + 'locations_index_slices', props=['C11', 'C02', 'C18'],
         params=_P5, returns='tuple[list[int],list[int]]',
         requires=_CLASS_PRE,
         ensures=["len(result[0]) == num_blocks - block_id", "len(result[1]) == num_blocks - block_id",
                  "forall(0, num_blocks - block_id, lambda j: result[0][j] == j*block_size + row_in_block and "
                  "result[1][j] == (block_id + j)*block_size + col_in_block)",
                  "forall(0, num_blocks - block_id, lambda j: 0 <= result[0][j] and result[0][j] < block_size*num_blocks "
                  "and 0 <= result[1][j] and result[1][j] < block_size*num_blocks)",
                  "fresh(result[0])", "fresh(result[1])", "not same(result[0], result[1])"])
