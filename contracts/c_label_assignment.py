"""Contracts: fast_ticc.cluster_label_assignment  (C01; used by C06, C07, C09, C15, C18, C19)"""
from pyvc.spec import contract, specfn, lemma

L = 'fast_ticc.cluster_label_assignment.'

# cost of stepping from label c at point j to label c2 at point j+1
specfn('vstep', "lambda C, B, j, c, c2: C[j + 1, c2] + ite(c == c2, 0, B[j])")

_T = "label_assignment_cost.shape[0]"
_K = "label_assignment_cost.shape[1]"

_ATT = ("forall(lambda j, c: implies({lo} < j and j <= {T} - 2 and 0 <= c and c < {K}, "
        "0 <= {P}[j, c] and {P}[j, c] < {K} and "
        "{F}[j, c] == vstep(label_assignment_cost, {B}, j, c, {P}[j, c]) + {F}[j + 1, {P}[j, c]]))")
_LB = ("forall(lambda j, c, c2: implies({lo} < j and j <= {T} - 2 and 0 <= c and c < {K} and 0 <= c2 and c2 < {K}, "
       "{F}[j, c] <= vstep(label_assignment_cost, {B}, j, c, c2) + {F}[j + 1, c2]))")
_LAST = "forall(lambda c: implies(0 <= c and c < {K}, {F}[{T} - 1, c] == 0))"


# total cost of a label sequence: assignment costs + switching cost of every consecutive pair with different labels
specfn('path_total', native="lambda C, beta, p: sum(C[t, p[t]] for t in range(len(p))) + "
       "sum((beta[t] if hasattr(beta, '__len__') else beta) for t in range(len(p) - 1) if p[t] != p[t + 1])")
specfn('all_sequences', native="lambda T, K: __import__('itertools').product(range(K), repeat=T)")

_NATIVE = [("native:cost-is-total-of-returned-labels",
            "result[1] == path_total(label_assignment_cost, label_switching_cost, result[0])"),
           ("native:brute-force-minimum-over-all-K^T-sequences",
            "label_assignment_cost.shape[1] ** label_assignment_cost.shape[0] > 5000 or "
            "all(path_total(label_assignment_cost, label_switching_cost, result[0]) <= "
            "path_total(label_assignment_cost, label_switching_cost, q) + 1e-9 "
            "for q in all_sequences(label_assignment_cost.shape[0], label_assignment_cost.shape[1]))")]


def _kernel(variant, beta_kind, beta_pre, beta_post):
    names = dict(T=_T, K=_K, F='future_cost_vals', P='path_matrix', B='label_switching_cost')
    post = dict(T=_T, K=_K, F='F', P='P', B='B', lo='-1')
    inv1 = [_LAST.format(**names), _ATT.format(lo='i', **names), _LB.format(lo='i', **names)]
    row_i_att = ("forall(lambda c: implies(0 <= c and c < cluster, 0 <= path_matrix[i, c] and path_matrix[i, c] < {K} and "
                 "future_cost_vals[i, c] == vstep(label_assignment_cost, label_switching_cost, i, c, path_matrix[i, c]) "
                 "+ future_cost_vals[i + 1, path_matrix[i, c]]))").format(**names)
    row_i_lb = ("forall(lambda c, c2: implies(0 <= c and c < cluster and 0 <= c2 and c2 < {K}, "
                "future_cost_vals[i, c] <= vstep(label_assignment_cost, label_switching_cost, i, c, c2) "
                "+ future_cost_vals[i + 1, c2]))").format(**names)
    tv = ("forall(lambda c: implies(0 <= c and c < {K}, total_vals[c] == future_cost_vals[i + 1, c] + "
          "label_assignment_cost[i + 1, c] + label_switching_cost[i]))").format(**names)
    # also C06 (reported cost = total of the returned path) and C07 (entry i of a vector beta prices the pair (i, i+1): the
    # zeros of the series-boundary mask make exactly the boundary switches free)
    contract(L + 'assign_point_cluster_labels' + variant, props=['C01', 'C15', 'C18', 'C19', 'C06', 'C07'],
             params=dict(label_assignment_cost='arr2[real]', label_switching_cost=beta_kind),
             returns='tuple[list[int],real]',
             requires=[_T + " >= 1", _K + " >= 1", _K + " <= 65536"] + beta_pre,
             ghost={'returns': dict(F='future_cost_vals', P='path_matrix', B='label_switching_cost'),
                    'return_kinds': dict(F='arr2[real]', P='arr2[int]', B='arr1[real]'),
                    'native_ensures': _NATIVE},
             ensures=[("labels-length", "len(result[0]) == " + _T),
                      ("labels-in-range", "forall(0, %s, lambda t: 0 <= result[0][t] and result[0][t] < %s)" % (_T, _K)),
                      ("beta-broadcast", beta_post),
                      ("table-shapes", "F.shape[0] == %s and F.shape[1] == %s and P.shape[0] == %s and P.shape[1] == %s "
                       "and B.shape[0] == %s" % (_T, _K, _T, _K, _T)),
                      ("bellman-last-row", _LAST.format(**post)),
                      ("bellman-attained", _ATT.format(**post)),
                      ("bellman-lower-bound", _LB.format(**post)),
                      ("first-label-minimises", "forall(lambda c: implies(0 <= c and c < %s, "
                       "(F[0, :] + label_assignment_cost[0, :])[result[0][0]] <= (F[0, :] + label_assignment_cost[0, :])[c] and "
                       "(F[0, :] + label_assignment_cost[0, :])[c] == F[0, c] + label_assignment_cost[0, c] and "
                       "F[0, result[0][0]] + label_assignment_cost[0, result[0][0]] <= F[0, c] + label_assignment_cost[0, c]))" % _K),
                      ("path-follows-table", "forall(lambda t: implies(0 <= t and t <= %s - 2, result[0][t + 1] == P[t, result[0][t]]))" % _T),
                      ("cost-is-table-entry", "result[1] == F[0, result[0][0]] + label_assignment_cost[0, result[0][0]]"),
                      "fresh(result[0])", "unchanged(label_assignment_cost)"],
             loops={1: dict(inv=inv1, modifies=['future_cost_vals', 'path_matrix']),
                    2: dict(inv=inv1 + [row_i_att, row_i_lb, tv], modifies=['future_cost_vals', 'path_matrix']),
                    3: dict(inv=["len(path) == " + _T, "path[0] == curr_location",
                                 "forall(lambda t: implies(0 <= t and t <= i, 0 <= path[t] and path[t] < %s))" % _K,
                                 "forall(lambda t: implies(0 <= t and t < i, path[t + 1] == path_matrix[t, path[t]]))"],
                            modifies=['path'])})


_kernel('#scalar', 'real', ["label_switching_cost >= 0"],
        "forall(0, %s, lambda t: B[t] == label_switching_cost)" % _T)
_kernel('#vector', 'arr1[real]',
        ["label_switching_cost.shape[0] == " + _T,
         "forall(0, %s, lambda t: label_switching_cost[t] >= 0)" % _T],
        "forall(0, %s, lambda t: B[t] == label_switching_cost[t]) and unchanged(label_switching_cost)" % _T)
