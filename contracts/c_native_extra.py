"""Native readings (run-time only) of postconditions whose deductive form uses uninterpreted or ghost vocabulary.

They are evaluated by native/runcheck.py on generated inputs -- a bounded stand-in that also supplies failing inputs when
a function has been rewritten in a way the symbolic engine cannot follow.  Each one is an independent NumPy statement of
the clause, not a call of the library's own helpers."""
from pyvc import spec as S
from pyvc.spec import specfn


def _add(qual, clauses):
    for q, c in S.CONTRACTS.items():
        if q == qual or q.startswith(qual + '#'):
            c.ghost.setdefault('native_ensures', [])
            c.ghost['native_ensures'] = list(c.ghost['native_ensures']) + list(clauses)


specfn('close', native="lambda a, b, tol=1e-9: (lambda x, y: x.shape == y.shape and bool(np.all(np.abs(x - y) <= tol * "
       "np.maximum(1.0, np.maximum(np.abs(x), np.abs(y))))))(np.asarray(a, dtype=float), np.asarray(b, dtype=float))")
specfn('rows', native="lambda data, members: np.asarray(data)[list(members)]")
specfn('gauss_density_np', native="lambda x, mu, theta, nw: 0.5 * (float(np.linalg.slogdet(theta)[1]) - float((np.asarray(x) - np.asarray(mu)) @ "
       "np.asarray(theta) @ (np.asarray(x) - np.asarray(mu))) - nw * math.log(2 * math.pi))")
specfn('class_positions', native="lambda b, r, c, n, w: [(j * n + r, (b + j) * n + c) for j in range(w - b)]")

CM = 'fast_ticc.cluster_maintenance.'
_add(CM + 'update_cluster_member_data_statistics', [
    ("native:covariance-is-np.cov-of-exactly-the-member-rows",
     "len(cluster.member_points) < 2 or close(np.atleast_2d(result.empirical_covariance), "
     "np.atleast_2d(np.cov(rows(training_data, cluster.member_points), rowvar=False, bias=use_biased_covariance)))"),
    ("native:mean-is-the-mean-of-exactly-the-member-rows",
     "len(cluster.member_points) < 1 or close(result.stacked_data_mean, rows(training_data, cluster.member_points).mean(axis=0))")])
_add(CM + 'update_all_cluster_statistics', [
    ("native:every-cluster-fitted-to-the-windows-carrying-its-label",
     "all(close(np.atleast_2d(result.clusters[k].empirical_covariance), np.atleast_2d(np.cov(np.asarray(training_data)["
     "[p for p, l in enumerate(model.point_labels) if l == k]], rowvar=False, bias=model.arguments.biased_covariance))) and "
     "close(result.clusters[k].stacked_data_mean, np.asarray(training_data)[[p for p, l in enumerate(model.point_labels) if l == k]].mean(axis=0)) "
     "for k in range(len(model.clusters)) if sum(1 for l in model.point_labels if l == k) >= 2)")])
_add(CM + '_find_ranked_donor_cluster_ids', [
    ("native:ranked-by-decreasing-norm-of-the-computed-covariance",
     "all(np.linalg.norm(model.clusters[result[j]].computed_covariance) >= np.linalg.norm(model.clusters[result[j + 1]].computed_covariance) "
     "for j in range(len(result) - 1))")])

SV = 'fast_ticc.admm.solver.'
_add(SV + 'x_update_prox', [
    # optimality condition of the X-step: rho*Theta - Theta^-1 = rho*(Z - U) - S, Theta symmetric positive definite
    ("native:theta-solves-the-prox-equation",
     "(lambda T: close(rho * T - np.linalg.inv(T), rho * np.asarray(z_minus_u) - np.asarray(empirical_covariance), 1e-7) and "
     "bool(np.all(np.linalg.eigvalsh(T) > 0)))(reinflate(result))")])
specfn('reinflate', native="lambda v: (lambda n: (lambda M: M + M.T - np.diag(np.diag(M)))((lambda M: (M.__setitem__(np.triu_indices(n), "
       "np.asarray(v, dtype=float)), M)[1])(np.zeros((n, n)))))(int(round((math.sqrt(8 * len(v) + 1) - 1) / 2)))")
_add(SV + 'check_convergence', [
    ("native:residuals-and-tolerances-by-their-definitions",
     "close(result[1], np.linalg.norm(np.asarray(x) - np.asarray(z))) and "
     "close(result[3], np.linalg.norm(args.rho * (np.asarray(z) - np.asarray(z_old)))) and "
     "close(result[2], math.sqrt(len(x)) * args.absolute_tolerance + 0.0001 + args.relative_tolerance * "
     "max(np.linalg.norm(x), np.linalg.norm(z))) and "
     "close(result[4], math.sqrt(len(x)) * args.absolute_tolerance + 0.0001 + args.relative_tolerance * np.linalg.norm(args.rho * np.asarray(u))) and "
     "bool(result[0]) == bool(result[1] <= result[2] and result[3] <= result[4])")])
_add(SV + 'compute_lambda_sum#array', [
    ("native:sum-of-lambda-over-the-positions-of-the-class",
     "close(result, sum(float(lambda_parameter[i, j]) for (i, j) in class_positions(block_id, row, column, block_size, num_blocks)))")])

LK = 'fast_ticc.likelihood.'
_add(LK + 'all_points_all_clusters_log_likelihood_fast', [
    ("native:every-table-entry-is-the-gaussian-log-density",
     "all(close(result[p, c], gauss_density_np(stacked_training_data[p], mus[c], thetas[c], stacked_training_data.shape[1])) "
     "for p in range(stacked_training_data.shape[0]) for c in range(num_clusters))")])

GL = 'fast_ticc.graphical_lasso.'
_add(GL + '_update_cluster_covariances', [
    ("native:scoring-matrix-log-determinant-and-covariance-belong-to-the-returned-MRF",
     "close(result.log_determinant, float(np.linalg.slogdet(result.train_inverse)[1])) and "
     "close(result.computed_covariance, np.linalg.inv(result.train_inverse), 1e-6) and "
     "not bool(np.any((np.abs(result.train_inverse) > 0) & (np.abs(result.train_inverse) < model.arguments.min_meaningful_covariance)))")])
