"""Contracts: fast_ticc.likelihood  (C05; used by C01/C09 data flow, C15, C19)"""
from pyvc.spec import contract, specfn

LK = 'fast_ticc.likelihood.'

# Gaussian log-density with mean mu and PRECISION theta, given ln det theta
# ghost: the number of sensors N of a stacked data matrix with window W (the stacking contract gives cols == N*W)
specfn('sensors', sig=(['arr2[real]', 'int'], 'int'), native="lambda A, W: A.shape[1] // W")
specfn('stacked_ok', "lambda A, W: sensors(A, W) >= 1 and A.shape[1] == sensors(A, W) * W")

specfn('gauss_ll', "lambda x, mu, theta, logdet_theta, nw: 0.5 * (logdet_theta - matmul(matmul(x - mu, theta), x - mu) - nw * ln(2 * pi()))",
       native="lambda x, mu, theta, logdet_theta, nw: 0.5 * (logdet_theta - float((x - mu) @ theta @ (x - mu)) - nw * math.log(2 * math.pi))")

contract(LK + 'point_log_likelihood_fast', props=['C05', 'C15', 'C19'],
         params=dict(point='arr1[real]', mu_i='arr1[real]', theta_i='arr2[real]', log_det_theta='real', window_size='int',
                     num_data_series='real'), returns='real',
         requires=["point.shape[0] == mu_i.shape[0]", "theta_i.shape[0] == point.shape[0]", "theta_i.shape[1] == point.shape[0]"],
         ensures=[("gaussian-log-density", "result == gauss_ll(point, mu_i, theta_i, log_det_theta, window_size * num_data_series)"),
                  "unchanged(point, mu_i, theta_i)"])

contract(LK + 'point_log_likelihood', props=['C05', 'C06', 'C19'],
         params=dict(point='arr1[real]', cluster='obj:ClusterParameters', window_size='int', num_data_series='real'), returns='real',
         requires=["not isnone(cluster.stacked_data_mean) and not isnone(cluster.inverse_covariance)",
                   "point.shape[0] == cluster.stacked_data_mean.shape[0]", "cluster.inverse_covariance.shape[0] == point.shape[0]",
                   "cluster.inverse_covariance.shape[1] == point.shape[0]"],
         ensures=[("density-under-this-clusters-mean-and-precision", "result == gauss_ll(point, cluster.stacked_data_mean, "
                   "cluster.inverse_covariance, cluster.log_determinant, window_size * num_data_series)"),
                  "unchanged(point, cluster)"])

_TABLE = ("forall(lambda p, c: implies(0 <= p and p < {rows} and 0 <= c and c < num_clusters, {res}[p, c] == "
          "gauss_ll(stacked_training_data[p, :], mus[c], thetas[c], log_det_thetas[c], window_size * {nd})))")
contract(LK + 'all_points_all_clusters_log_likelihood_fast', props=['C05', 'C15', 'C19'],
         # stacked (K x NW) means and (K x NW x NW) precisions are modelled as lists of K arrays
         params=dict(window_size='int', num_clusters='int', mus='list[arr1[real]]', thetas='list[arr2[real]]',
                     log_det_thetas='arr1[real]', stacked_training_data='arr2[real]'), returns='arr2[real]',
         requires=["window_size >= 1", "num_clusters >= 0", "len(mus) == num_clusters", "len(thetas) == num_clusters",
                   "log_det_thetas.shape[0] == num_clusters",
                   "forall(0, num_clusters, lambda c: not isnone(mus[c]) and not isnone(thetas[c]) and "
                   "mus[c].shape[0] == stacked_training_data.shape[1] and thetas[c].shape[0] == stacked_training_data.shape[1] and "
                   "thetas[c].shape[1] == stacked_training_data.shape[1])"],
         ghost={'returns': dict(ND='num_data_series'), 'return_kinds': dict(ND='int')},
         ensures=["result.shape[0] == stacked_training_data.shape[0] and result.shape[1] == num_clusters",
                  ("sensor-count-is-columns-over-window", "implies(stacked_ok(stacked_training_data, window_size), "
                   "ND * window_size == stacked_training_data.shape[1])"),
                  ("table-entry-is-the-density-of-point-p-under-cluster-c", _TABLE.format(rows="stacked_training_data.shape[0]", res="result", nd="ND")),
                  "fresh(result)", "unchanged(stacked_training_data, log_det_thetas, mus, thetas)"],
         loops={1: dict(inv=[_TABLE.format(rows="point", res="result", nd="num_data_series")], modifies=['result']),
                2: dict(inv=[_TABLE.format(rows="point", res="result", nd="num_data_series"),
                             "forall(lambda c: implies(0 <= c and c < cluster, result[point, c] == gauss_ll(stacked_training_data[point, :], "
                             "mus[c], thetas[c], log_det_thetas[c], window_size * num_data_series)))"],
                        modifies=['result'])})

_KC = "len(model.clusters)"
contract(LK + 'all_points_all_clusters_log_likelihood', props=['C05', 'C03', 'C13', 'C19'],
         params=dict(model='obj:ModelState', stacked_training_data='arr2[real]'), returns='arr2[real]',
         requires=["not isnone(model.clusters) and not isnone(model.arguments)", _KC + " == model.arguments.num_clusters",
                   "distinct_clusters(model)", "model.arguments.window_size >= 1",
                   "stacked_ok(stacked_training_data, model.arguments.window_size)",
                   "forall(0, " + _KC + ", lambda k: not isnone(model.clusters[k].stacked_data_mean) and not isnone(model.clusters[k].train_inverse) and "
                   "model.clusters[k].stacked_data_mean.shape[0] == stacked_training_data.shape[1] and "
                   "model.clusters[k].train_inverse.shape[0] == stacked_training_data.shape[1] and "
                   "model.clusters[k].train_inverse.shape[1] == stacked_training_data.shape[1] and is_spd(model.clusters[k].train_inverse))"],
         # the two derived cache fields are refreshed in the clusters of the state given (see DESIGN: not labelling/membership/statistics)
         assigns=['model.clusters[*].inverse_covariance', 'model.clusters[*].log_determinant'],
         ghost={'native_ensures': [("native:table-is-finite-and-is-the-gaussian-log-density",
                                    "bool(np.all(np.isfinite(result))) and all(result[p, c] == gauss_ll(stacked_training_data[p], "
                                    "model.clusters[c].stacked_data_mean, model.clusters[c].train_inverse, logdet(model.clusters[c].train_inverse), "
                                    "stacked_training_data.shape[1]) for p in range(result.shape[0]) for c in range(result.shape[1]))")],
                'cumulative_posts': True, 'returns': dict(MUS='mus', TH='thetas', LD='log_det_thetas', ND='ghost_all_points_all_clusters_log_likelihood_fast_ND'),
                'return_kinds': dict(MUS='list[arr1[real]]', TH='list[arr2[real]]', LD='arr1[real]', ND='int')},
         ensures=["result.shape[0] == stacked_training_data.shape[0] and result.shape[1] == " + _KC,
                  ("cache-fields-refreshed-from-the-fitted-precision", "forall(0, " + _KC + ", lambda k: "
                   "same(model.clusters[k].inverse_covariance, model.clusters[k].train_inverse) and "
                   "model.clusters[k].log_determinant == logdet(model.clusters[k].train_inverse))"),
                  ("unwrapped-means", "forall(0, " + _KC + ", lambda c: same(MUS[c], model.clusters[c].stacked_data_mean))"),
                  ("unwrapped-precisions", "forall(0, " + _KC + ", lambda c: same(TH[c], model.clusters[c].train_inverse))"),
                  ("unwrapped-logdets", "forall(0, " + _KC + ", lambda c: LD[c] == logdet(model.clusters[c].train_inverse))"),
                  ("sensor-count", "ND * model.arguments.window_size == stacked_training_data.shape[1]"),
                  ("table-from-the-kernel-1", "forall(lambda p, c: implies(0 <= p and p < stacked_training_data.shape[0] and "
                   "0 <= c and c < " + _KC + ", result[p, c] == gauss_ll(stacked_training_data[p, :], MUS[c], TH[c], LD[c], model.arguments.window_size * ND)))"),
                  ("table-from-the-kernel", "forall(lambda p, c: implies(0 <= p and p < stacked_training_data.shape[0] and "
                   "0 <= c and c < " + _KC + ", result[p, c] == gauss_ll(stacked_training_data[p, :], MUS[c], TH[c], LD[c], stacked_training_data.shape[1])))"),
                  ("table-is-the-gaussian-log-density-under-mean-and-MRF", "forall(lambda p, c: implies(0 <= p and p < stacked_training_data.shape[0] and "
                   "0 <= c and c < " + _KC + ", result[p, c] == gauss_ll(stacked_training_data[p, :], model.clusters[c].stacked_data_mean, "
                   "model.clusters[c].train_inverse, logdet(model.clusters[c].train_inverse), stacked_training_data.shape[1])))"),
                  "fresh(result)", "unchanged(stacked_training_data, model, model.clusters)"],
         loops={1: dict(inv=["forall(0, cluster, lambda k: same(model.clusters[k].inverse_covariance, model.clusters[k].train_inverse) and "
                             "model.clusters[k].log_determinant == logdet(model.clusters[k].train_inverse))"],
                        modifies=['model.clusters[*].inverse_covariance', 'model.clusters[*].log_determinant'])})
