"""Contracts: fast_ticc.data_preparation  (C10, C04, C07)"""
from pyvc.spec import contract, specfn, lemma

D = 'fast_ticc.data_preparation.'

_CELL = ("forall(lambda i2, j2, k2: implies(0 <= i2 and i2 < %s and 0 <= j2 and j2 < %s and 0 <= k2 and k2 < data.shape[1], "
         "%s[i2, j2*data.shape[1] + k2] == data[i2 + j2, k2]))")

contract(D + 'stack_training_data', props=['C10', 'C04', 'C07'],
         params=dict(data='arr2[real]', window_size='int'), returns='arr2[real]',
         requires=["window_size >= 1", "window_size <= data.shape[0]"],
         ensures=["result.shape[0] == data.shape[0] - window_size + 1",
                  "result.shape[1] == data.shape[1] * window_size",
                  # columns [jN,(j+1)N) of row i are row i+j of the input
                  ("cells", _CELL % ("data.shape[0] - window_size + 1", "window_size", "result")),
                  # ghost: the sensor count N of a stacked matrix is the column count of the series it was built from
                  ("def:sensors", "sensors(result, window_size) == data.shape[1]"),
                  "fresh(result)"],
         ghost={'mode': 'lambda'},
         loops={1: dict(inv=[_CELL % ("i", "window_size", "stacked_training_data")],
                        modifies=["stacked_training_data"]),
                2: dict(inv=[_CELL % ("i", "window_size", "stacked_training_data"),
                             "forall(lambda j2, k2: implies(0 <= j2 and j2 < j and 0 <= k2 and k2 < data.shape[1], "
                             "stacked_training_data[i, j2*data.shape[1] + k2] == data[i + j2, k2]))"],
                        modifies=["stacked_training_data"])})

# prefix sums of an integer list: psum(xs, n) = xs[0] + ... + xs[n-1]  (engine vocabulary)

contract(D + 'label_switching_cost_template', props=['C07'],
         params=dict(stacked_series_lengths='list[int]'), returns='arr1[real]',
         requires=["len(stacked_series_lengths) >= 1",
                   "forall(0, len(stacked_series_lengths), lambda s: stacked_series_lengths[s] >= 1)"],
         ensures=["result.shape[0] == psum(stacked_series_lengths, len(stacked_series_lengths))",
                  ("values-0-or-1", "forall(0, result.shape[0], lambda i: result[i] == 0 or result[i] == 1)"),
                  # beta[i] prices the pair (i, i+1): the pair straddles two series iff i is the last
                  # point of a series other than the last one, i.e. i == psum(lengths, s+1) - 1
                  ("zeros-exactly-at-boundary-pairs",
                   "forall(0, result.shape[0], lambda i: (result[i] == 0) == "
                   "exists(0, len(stacked_series_lengths) - 1, lambda s: i == psum(stacked_series_lengths, s + 1) - 1))"),
                  "fresh(result)"])

contract(D + 'pad_missing_labels', props=['C04', 'C10'],
         params=dict(original_labels='list[int]', window_size='int'), returns='list[int]',
         requires=["window_size >= 1"],
         ensures=["len(result) == len(original_labels) + window_size - 1",
                  ("front-margin", "forall(0, (window_size - 1)//2, lambda i: result[i] == -1)"),
                  ("interior", "forall(0, len(original_labels), lambda i: result[(window_size - 1)//2 + i] == original_labels[i], "
                   "pat=(result[(window_size - 1)//2 + i],))"),
                  # the same fact indexed by position: a trigger without arithmetic, so callers' proofs do not depend on e-matching modulo +
                  ("interior-by-position", "forall((window_size - 1)//2, (window_size - 1)//2 + len(original_labels), "
                   "lambda t: result[t] == original_labels[t - (window_size - 1)//2])"),
                  ("back-margin", "forall((window_size - 1)//2 + len(original_labels), len(result), lambda i: result[i] == -1)"),
                  "fresh(result)", "unchanged(original_labels)"])

contract(D + 'split_joint_labels', props=['C04', 'C10'],
         params=dict(joint_labels='list[int]', stacked_series_lengths='list[int]'), returns='list[list[int]]',
         requires=["forall(0, len(stacked_series_lengths), lambda s: stacked_series_lengths[s] >= 0)",
                   "len(joint_labels) == psum(stacked_series_lengths, len(stacked_series_lengths))"],
         ensures=["len(result) == len(stacked_series_lengths)",
                  ("part-lengths", "forall(0, len(result), lambda s: len(result[s]) == stacked_series_lengths[s])"),
                  ("part-contents", "forall(lambda s, i: implies(0 <= s and s < len(result) and 0 <= i and "
                   "i < stacked_series_lengths[s], result[s][i] == joint_labels[psum(stacked_series_lengths, s) + i]))"),
                  "unchanged(joint_labels)", "fresh(result)",
                  "forall(0, len(result), lambda s: fresh(result[s]))"],
         ghost={'kind:label_lists': 'list[list[int]]'},
         loops={1: dict(inv=["len(label_lists) == i",
                             "forall(0, i, lambda s: len(label_lists[s]) == stacked_series_lengths[s])",
                             "forall(lambda s, i2: implies(0 <= s and s < i and 0 <= i2 and i2 < stacked_series_lengths[s], "
                             "label_lists[s][i2] == joint_labels[psum(stacked_series_lengths, s) + i2]))",
                             "forall(0, i, lambda s: fresh(label_lists[s]))",
                             "forall(0, i, lambda s: not same(label_lists[s], label_lists))"],
                        lemmas_end=["start == psum(stacked_series_lengths, i)",
                                    "end == start + stacked_series_lengths[i]",
                                    "0 <= start and end <= len(joint_labels)",
                                    "len(label_lists[i]) == stacked_series_lengths[i]",
                                    "forall(0, stacked_series_lengths[i], lambda i2: "
                                    "label_lists[i][i2] == joint_labels[start + i2])"],
                        modifies=["label_lists"])})

# wrong kind of input (a list of arrays): the attribute access data.shape raises AttributeError
contract(D + 'stack_training_data#list', props=['C20'],
         params=dict(data='list[arr2[real]]', window_size='int'), returns='arr2[real]',
         raises={'AttributeError': "True"}, ensures=[])

_MS_CELL = ("forall(lambda s, i2, j2, k2: implies(0 <= s and s < {n} and 0 <= i2 and i2 < all_series[s].shape[0] - window_size + 1 and "
            "0 <= j2 and j2 < window_size and 0 <= k2 and k2 < all_series[s].shape[1], "
            "{res}[row_offset({res}, s) + i2, j2*all_series[s].shape[1] + k2] == all_series[s][i2 + j2, k2]))")
specfn('same_bits', native="lambda a, b: np.asarray(a, dtype=float).tobytes() == np.asarray(b, dtype=float).tobytes()")

contract(D + 'stack_training_data_multiple_series', props=['C10', 'C07', 'C04'],
         params=dict(all_series='list[arr2[real]]', window_size='int'), returns='arr2[real]',
         requires=["len(all_series) >= 1", "window_size >= 1",
                   "forall(0, len(all_series), lambda s: not isnone(all_series[s]) and window_size <= all_series[s].shape[0] and "
                   "all_series[s].shape[1] == all_series[0].shape[1])"],
         ghost={'comps': {1: dict(kind='list[arr2[real]]',
                                  inv=["len(_comp1) == _k",
                                       "forall(0, _k, lambda s: fresh(_comp1[s]) and allocated(_comp1[s]) and not same(_comp1[s], _comp1) and "
                                       "_comp1[s].shape[0] == all_series[s].shape[0] - window_size + 1 and "
                                       "_comp1[s].shape[1] == all_series[s].shape[1] * window_size)",
                                       "forall(lambda s, i2, j2, k2: implies(0 <= s and s < _k and 0 <= i2 and i2 < all_series[s].shape[0] - window_size + 1 and "
                                       "0 <= j2 and j2 < window_size and 0 <= k2 and k2 < all_series[s].shape[1], "
                                       "_comp1[s][i2, j2*all_series[s].shape[1] + k2] == all_series[s][i2 + j2, k2]))"])},
                # the cell equation of the concatenation, evaluated natively with explicit offsets (the deductive clause uses the ghost row_offset)
                'native_ensures': [("native:row-(offset(s)+i)-is-window-i-of-series-s",
                                    "result.shape[0] == sum(len(t) - window_size + 1 for t in all_series) and "
                                    "all(same_bits(result[sum(len(t) - window_size + 1 for t in all_series[:s]) + i, "
                                    "j * all_series[s].shape[1]:(j + 1) * all_series[s].shape[1]], all_series[s][i + j]) "
                                    "for s in range(len(all_series)) for i in range(len(all_series[s]) - window_size + 1) for j in range(window_size))")]},
         ensures=[("row-offsets-are-the-prefix-sums-of-the-stacked-lengths", "row_offset(result, 0) == 0 and "
                   "forall(0, len(all_series), lambda s: row_offset(result, s + 1) == row_offset(result, s) + all_series[s].shape[0] - window_size + 1) and "
                   "result.shape[0] == row_offset(result, len(all_series))"),
                  ("row-offsets-as-prefix-sums", "forall(0, len(all_series) + 1, lambda s: row_offset(result, s) == "
                   "psum(lambda t: all_series[t].shape[0] - window_size + 1, s, len(all_series)))"),
                  "result.shape[1] == all_series[0].shape[1] * window_size",
                  # every stacked row lies inside one series: row (offset(s)+i) is window i of series s and of no other
                  ("concatenation-of-the-individual-stackings", _MS_CELL.format(n="len(all_series)", res="result")),
                  ("def:sensors", "sensors(result, window_size) == all_series[0].shape[1]"),
                  "fresh(result)", "unchanged(all_series)", "forall(0, len(all_series), lambda s: unchanged(all_series[s]))"])

# wrong kind of input for the joint front end (a list of 1-D arrays): data.shape[1] raises IndexError
contract(D + 'stack_training_data#1d', props=['C20'], params=dict(data='arr1[real]', window_size='int'), returns='arr2[real]',
         raises={'IndexError': "True"}, ensures=[])
contract(D + 'stack_training_data_multiple_series#1d', props=['C20'],
         params=dict(all_series='list[arr1[real]]', window_size='int'), returns='arr2[real]',
         requires=["len(all_series) >= 1"], raises={'IndexError': "True"}, ensures=[],
         ghost={'comps': {1: dict(kind='list[arr2[real]]', inv=["len(_comp1) == _k", "_k == 0"])}})
