"""Contracts: fast_ticc.graphical_lasso  (C03 floor/logdet, C12 task set-up, C14 gather by index, C20, C19)"""
from pyvc.spec import contract, specfn, classschema
from contracts.c_model_state import MEMBERS_TRANSFER, SQUARE_UNIQUE

GL = 'fast_ticc.graphical_lasso.'

specfn('floored', "lambda a, eps: ite(a < eps and a > -eps, 0, a)")

_FLOOR_CELLS = ("forall(lambda i, j: implies(0 <= i and i < array.shape[0] and 0 <= j and j < array.shape[1], "
                "result[i, j] == floored(old(array[i, j]), epsilon)))")
contract(GL + '_zero_small_elements', props=['C03', 'C18', 'C19'],
         params=dict(array='arr2[real]', epsilon='real', copy='bool'), returns='arr2[real]',
         assigns=['array'],
         ensures=["result.shape[0] == array.shape[0] and result.shape[1] == array.shape[1]",
                  # |a| < eps -> exactly 0 ; |a| >= eps -> exactly the value given (comparisons only: exact for doubles)
                  ("floor-is-exact", _FLOOR_CELLS),
                  ("copy-requested-means-input-untouched", "implies(copy, fresh(result) and unchanged(array))"),
                  ("in-place-returns-the-same-object", "implies(not copy, same(result, array))")])

classschema('AsyncTask', '<multiprocessing.pool.AsyncResult>',
            dict(a0='arr2[real]', a1='real', a2='int', a3='int', rho='real', rho_update='opaque:callable',
                 max_iterations='int', relative_tolerance='real', absolute_tolerance='real', verbose='bool',
                 failed='bool', pool='opaque:pool', fn_is_admm='bool'))

contract(GL + '_setup_optimization_task', props=['C12', 'C14', 'C19'],
         params=dict(cluster='obj:ClusterParameters', num_data_series='int', window_size='int', density_penalty='real',
                     pool='opaque:pool'), returns='obj:AsyncTask',
         # the optimiser receives that cluster's covariance, the user's lambda, W and N unchanged, and the fixed solver settings
         ensures=["fresh(result)", "result.fn_is_admm",
                  ("covariance-of-this-cluster", "same(result.a0, cluster.empirical_covariance)"),
                  ("lambda-W-N-unchanged", "result.a1 == density_penalty and result.a2 == window_size and result.a3 == num_data_series"),
                  ("fixed-solver-settings", "result.rho == 1 and isnone(result.rho_update) and result.max_iterations == 1000 and "
                   "result.relative_tolerance == 0.000001 and result.absolute_tolerance == 0.000001 and not result.verbose"),
                  "same(result.pool, pool)", "unchanged(cluster)"])

specfn('is_spd', native="lambda A: bool(np.all(np.isfinite(A)) and np.all(np.linalg.eigvalsh((A + A.T) / 2) > 0))")
# the floored re-inflation of a compressed optimiser result is symmetric positive definite (abbreviation, see def: clause)
specfn('spd_compressed', sig=(['arr1[real]', 'real'], 'bool'), native="lambda v, eps: True")
specfn('logdet', native="lambda A: float(np.linalg.slogdet(A)[1])")

_REC = ("forall(lambda i, j: implies(0 <= i and i < result.shape[0] and 0 <= j and j < result.shape[0], "
        "result[i, j] == floored(compressed_result[tri_rank(imin(i, j), imax(i, j), result.shape[0])], "
        "model.arguments.min_meaningful_covariance)))")
contract(GL + '_reconstruct_optimized_matrix', props=['C03', 'C19'],
         params=dict(model='obj:ModelState', compressed_result='arr1[real]'), returns='arr2[real]',
         requires=["exists(lambda n: n >= 0 and 2*compressed_result.shape[0] == n*(n+1))", "not isnone(model.arguments)"],
         ensures=["result.shape[0] == result.shape[1]", "2*compressed_result.shape[0] == result.shape[0]*(result.shape[0]+1)",
                  ("floor-applied-to-the-reinflated-matrix", _REC),
                  ("symmetric", "forall(lambda i, j: implies(0 <= i and i < result.shape[0] and 0 <= j and j < result.shape[0], result[i, j] == result[j, i]))"),
                  ("no-floor-requested-means-exactly-the-optimiser-output", "implies(model.arguments.min_meaningful_covariance == 0, "
                   "forall(lambda i, j: implies(0 <= i and i < result.shape[0] and 0 <= j and j < result.shape[0], "
                   "result[i, j] == compressed_result[tri_rank(imin(i, j), imax(i, j), result.shape[0])])))"),
                  ("def:spd_compressed", "spd_compressed(compressed_result, model.arguments.min_meaningful_covariance) == is_spd(result, result.shape[0])"),
                  "fresh(result)", "unchanged(compressed_result, model)"])

contract(GL + '_update_cluster_covariances', props=['C03', 'C05', 'C13', 'C14', 'C19'],
         params=dict(model='obj:ModelState', cluster='obj:ClusterParameters', admm_result='arr1[real]'),
         returns='obj:ClusterParameters',
         requires=["exists(lambda n: n >= 0 and 2*admm_result.shape[0] == n*(n+1))", "not isnone(model.arguments)",
                   "not isnone(cluster._member_points)",
                   # the optimiser output is symmetric positive definite (solver contracts + spectral calculus; with a floor
                   # eps > 0 this is the caller's obligation)
                   "spd_compressed(admm_result, model.arguments.min_meaningful_covariance)"],
         ghost={'returns': dict(TH='optimized_inverse_covariance'), 'return_kinds': dict(TH='arr2[real]'),
                'native_ensures': [("native:log-determinant-finite-and-equal-to-slogdet",
                                    "math.isfinite(result.log_determinant) and result.log_determinant == logdet(result.train_inverse)"),
                                   ("native:precision-symmetric", "bool(np.array_equal(result.train_inverse, result.train_inverse.T))")]},
         ensures=["fresh(result)", "fresh(result.train_inverse) and fresh(result.computed_covariance)", "same(result.train_inverse, TH)",
                  ("train-inverse-is-the-floored-reinflated-result", "forall(lambda i, j: implies(0 <= i and i < TH.shape[0] and 0 <= j and j < TH.shape[0], "
                   "TH[i, j] == floored(admm_result[tri_rank(imin(i, j), imax(i, j), TH.shape[0])], model.arguments.min_meaningful_covariance)))"),
                  ("log-determinant-is-finite-and-correct", "result.log_determinant == logdet(TH)"),
                  ("precision-is-spd-square-and-sized-by-the-result", "is_spd(TH) and TH.shape[0] == TH.shape[1] and "
                   "2*admm_result.shape[0] == TH.shape[0]*(TH.shape[0] + 1) and TH.shape[0] >= 0"),
                  ("membership-list-is-a-fresh-copy", "fresh(result._member_points) and not isnone(result._member_points)"),
                  ("statistics-and-membership-carried-over", "same(result.empirical_covariance, cluster.empirical_covariance) and "
                   "same(result.stacked_data_mean, cluster.stacked_data_mean) and len(result._member_points) == len(cluster._member_points) and "
                   "implies(ascending(cluster._member_points), eqcontent(result._member_points, cluster._member_points))"),
                  "unchanged(cluster, cluster._member_points, admm_result, model)"])

_K = "len(model.clusters)"
contract(GL + '_retrieve_optimization_results', props=['C14', 'C20', 'C13', 'C03', 'C19'],
         params=dict(model='obj:ModelState', optimization_tasks='list[obj:AsyncTask]'), returns='obj:ModelState',
         requires=["not isnone(model.clusters)", "not isnone(model.arguments)", "len(optimization_tasks) == " + _K,
                   "forall(0, " + _K + ", lambda k: not isnone(model.clusters[k]) and not isnone(model.clusters[k]._member_points) and "
                   "not isnone(optimization_tasks[k]) and optimization_tasks[k].fn_is_admm)",
                   # what the tasks were created with (established by optimize_markov_random_fields)
                   "forall(0, " + _K + ", lambda k: optimization_tasks[k].rho > 0 and optimization_tasks[k].a2 >= 1 and optimization_tasks[k].a3 >= 1 and "
                   "optimization_tasks[k].a1 >= 0 and not isnone(optimization_tasks[k].a0))",
                   "forall(0, " + _K + ", lambda k: optimization_tasks[k].a2 * optimization_tasks[k].a3 < 67108864)",
                   "forall(0, " + _K + ", lambda k: optimization_tasks[k].a0.shape[0] == optimization_tasks[k].a2 * optimization_tasks[k].a3 and "
                   "optimization_tasks[k].a0.shape[1] == optimization_tasks[k].a2 * optimization_tasks[k].a3)",
                   "forall(0, " + _K + ", lambda k: forall(lambda x_e: spd_compressed_task(optimization_tasks[k], x_e)))"],
         # the worker's exception propagates: raised iff some task failed (no handler anywhere on the path)
         raises={'WorkerError': "exists(0, len(optimization_tasks), lambda k: optimization_tasks[k].failed)"},
         axioms=[("triangular-numbers-determine-n", SQUARE_UNIQUE)],
         ghost={'kind:updated_clusters': 'list[obj:ClusterParameters]', 'cumulative_posts': True},
         ensures=["fresh(result)", "fresh(result.clusters)", "len(result.clusters) == " + _K,
                  ("no-result-after-a-worker-failure", "not _any_task_failed"),
                  # gather BY INDEX: cluster k is built from task k and from cluster k only (no completion order, no pool size)
                  ("cluster-k-comes-from-task-k", "forall(0, " + _K + ", lambda k: fresh(result.clusters[k]) and "
                   "same(result.clusters[k].empirical_covariance, model.clusters[k].empirical_covariance) and "
                   "same(result.clusters[k].stacked_data_mean, model.clusters[k].stacked_data_mean) and "
                   "forall(lambda i, j: implies(0 <= i and i < result.clusters[k].train_inverse.shape[0] and 0 <= j and "
                   "j < result.clusters[k].train_inverse.shape[0], result.clusters[k].train_inverse[i, j] == "
                   "floored(task_theta(optimization_tasks[k])[tri_rank(imin(i, j), imax(i, j), result.clusters[k].train_inverse.shape[0])], "
                   "model.arguments.min_meaningful_covariance))))"),
                  "same(result._point_labels, model._point_labels) and same(result.arguments, model.arguments)",
                  ("precisions-are-spd-and-sized-NW", "forall(0, " + _K + ", lambda k: is_spd(result.clusters[k].train_inverse) and "
                   "not isnone(result.clusters[k].computed_covariance) and not isnone(result.clusters[k].train_inverse) and "
                   "result.clusters[k].train_inverse.shape[0] == optimization_tasks[k].a2 * optimization_tasks[k].a3 and "
                   "result.clusters[k].train_inverse.shape[1] == optimization_tasks[k].a2 * optimization_tasks[k].a3)"),
                  ("membership-carried-over", "forall(0, " + _K + ", lambda k: len(result.clusters[k]._member_points) == len(model.clusters[k]._member_points) and "
                   "implies(ascending(model.clusters[k]._member_points), eqcontent(result.clusters[k]._member_points, model.clusters[k]._member_points)))"),
                  ("clusters-pairwise-distinct", "distinct_clusters(result)"),
                  ("correct-membership-stays-correct", "implies(not isnone(model._point_labels), forall(0, " + _K + ", lambda k: "
                   "implies(members_ok(model.clusters[k]._member_points, model._point_labels, k), "
                   "members_ok(result.clusters[k]._member_points, model._point_labels, k))))"),
                  "unchanged(model, model.clusters)"],
         loops={1: dict(inv=["len(updated_clusters) == _k", "fresh(updated_clusters)", "not _any_task_failed",
                             "forall(0, _k, lambda k: allocated(updated_clusters[k]) and allocated(updated_clusters[k].train_inverse) and "
                             "allocated(updated_clusters[k].computed_covariance) and allocated(updated_clusters[k]._member_points) and "
                             "not same(updated_clusters[k]._member_points, updated_clusters))",
                             "forall(0, _k, lambda k: is_spd(updated_clusters[k].train_inverse))",
                             "forall(0, _k, lambda k: not isnone(updated_clusters[k].computed_covariance) and not isnone(updated_clusters[k].train_inverse))",
                             "forall(0, _k, lambda k: updated_clusters[k].train_inverse.shape[0] == optimization_tasks[k].a2 * optimization_tasks[k].a3 and "
                             "updated_clusters[k].train_inverse.shape[1] == optimization_tasks[k].a2 * optimization_tasks[k].a3)",
                             "forall(0, _k, lambda k: len(updated_clusters[k]._member_points) == len(model.clusters[k]._member_points) and "
                             "implies(ascending(model.clusters[k]._member_points), eqcontent(updated_clusters[k]._member_points, model.clusters[k]._member_points)))",
                             "forall(lambda k1, k2: implies(0 <= k1 and k1 < k2 and k2 < _k, not same(updated_clusters[k1], updated_clusters[k2])))",
                             "implies(not isnone(model._point_labels), forall(0, _k, lambda k: implies(members_ok(model.clusters[k]._member_points, model._point_labels, k), "
                             "members_ok(updated_clusters[k]._member_points, model._point_labels, k))))",
                             "forall(0, _k, lambda k: not optimization_tasks[k].failed)",
                             "forall(0, _k, lambda k: fresh(updated_clusters[k]) and "
                             "same(updated_clusters[k].empirical_covariance, model.clusters[k].empirical_covariance) and "
                             "same(updated_clusters[k].stacked_data_mean, model.clusters[k].stacked_data_mean))",
                             "forall(lambda k, i, j: implies(0 <= k and k < _k and 0 <= i and i < updated_clusters[k].train_inverse.shape[0] and 0 <= j and "
                             "j < updated_clusters[k].train_inverse.shape[0], updated_clusters[k].train_inverse[i, j] == "
                             "floored(task_theta(optimization_tasks[k])[tri_rank(imin(i, j), imax(i, j), updated_clusters[k].train_inverse.shape[0])], "
                             "model.arguments.min_meaningful_covariance)))"],
                        lemmas_end=["implies(not isnone(model._point_labels) and members_ok(model.clusters[_k]._member_points, model._point_labels, _k), "
                                    "eqcontent(updated_clusters[_k]._member_points, model.clusters[_k]._member_points))",
                                    "implies(not isnone(model._point_labels) and members_ok(model.clusters[_k]._member_points, model._point_labels, _k), "
                                    "members_ok(updated_clusters[_k]._member_points, model._point_labels, _k))",
                                    "2 * admm_result.theta.shape[0] == optimization_tasks[_k].a2 * optimization_tasks[_k].a3 * (optimization_tasks[_k].a2 * optimization_tasks[_k].a3 + 1)",
                                    "2 * admm_result.theta.shape[0] == updated_clusters[_k].train_inverse.shape[0] * (updated_clusters[_k].train_inverse.shape[0] + 1)",
                                    "implies(updated_clusters[_k].train_inverse.shape[0] >= 0 and optimization_tasks[_k].a2 * optimization_tasks[_k].a3 >= 0 and "
                                    "updated_clusters[_k].train_inverse.shape[0] * (updated_clusters[_k].train_inverse.shape[0] + 1) == "
                                    "optimization_tasks[_k].a2 * optimization_tasks[_k].a3 * (optimization_tasks[_k].a2 * optimization_tasks[_k].a3 + 1), "
                                    "updated_clusters[_k].train_inverse.shape[0] == optimization_tasks[_k].a2 * optimization_tasks[_k].a3)",
                                    "updated_clusters[_k].train_inverse.shape[0] == optimization_tasks[_k].a2 * optimization_tasks[_k].a3"],
                        modifies=['updated_clusters'])})

contract(GL + 'optimize_markov_random_fields', props=['C14', 'C20', 'C13', 'C12', 'C09', 'C19'],
         params=dict(model='obj:ModelState', stacked_training_data='arr2[real]', pool='opaque:pool'), returns='obj:ModelState',
         requires=["wf(model)", ("typestate:statistics-fitted", "model._phase == 2"),
                   "model.arguments.window_size >= 1", "model.arguments.sparsity_weight >= 0",
                   "stacked_training_data.shape[1] >= 1", "stacked_training_data.shape[1] < 67108864",
                   # W divides the number of stacked columns (N*W columns by construction of the stacking)
                   "stacked_ok(stacked_training_data, model.arguments.window_size)",
                   "forall(0, len(model.clusters), lambda k: not isnone(model.clusters[k].empirical_covariance) and "
                   "model.clusters[k].empirical_covariance.shape[0] == stacked_training_data.shape[1] and "
                   "model.clusters[k].empirical_covariance.shape[1] == stacked_training_data.shape[1])",
                   "forall(lambda t, x_e: spd_compressed_task(t, x_e))"],
         raises={'WorkerError': None},
         axioms=[("same-contents-same-membership", MEMBERS_TRANSFER.format(labels='model._point_labels'))],
         ghost={'kind:optimization_tasks': 'list[obj:AsyncTask]', 'nullable': [], 'cumulative_posts': True,
                'returns': dict(TASKS='optimization_tasks'), 'return_kinds': dict(TASKS='list[obj:AsyncTask]'),
                'xensures': {'WorkerError': [("state-given-is-not-altered", "unchanged(model, model.clusters)")]}},
         ensures=["fresh(result)", "fresh(result.clusters)", "len(result.clusters) == len(model.clusters)",
                  ("no-result-after-a-worker-failure", "not _any_task_failed"),
                  ("task-k-was-created-from-cluster-k-with-the-user-parameters", "len(TASKS) == len(model.clusters) and "
                   "forall(0, len(TASKS), lambda k: same(TASKS[k].a0, model.clusters[k].empirical_covariance) and "
                   "TASKS[k].a1 == model.arguments.sparsity_weight and TASKS[k].a2 == model.arguments.window_size and "
                   "TASKS[k].a3 * model.arguments.window_size == stacked_training_data.shape[1] and same(TASKS[k].pool, pool))"),
                  ("cluster-k-comes-from-task-k", "forall(0, len(model.clusters), lambda k: fresh(result.clusters[k]) and "
                   "same(result.clusters[k].empirical_covariance, model.clusters[k].empirical_covariance) and "
                   "same(result.clusters[k].stacked_data_mean, model.clusters[k].stacked_data_mean))"),
                  "same(result._point_labels, model._point_labels) and same(result.arguments, model.arguments)",
                  ("state-given-is-not-altered", "unchanged(model, model.clusters, stacked_training_data)"),
                  ("tasks-sized-NW", "forall(0, len(TASKS), lambda k: TASKS[k].a2 * TASKS[k].a3 == stacked_training_data.shape[1])"),
                  ("precisions-are-spd", "forall(0, len(model.clusters), lambda k: is_spd(result.clusters[k].train_inverse) and "
                   "not isnone(result.clusters[k].computed_covariance))"),
                  ("precisions-are-spd-and-sized-NW", "forall(0, len(model.clusters), lambda k: is_spd(result.clusters[k].train_inverse) and "
                   "not isnone(result.clusters[k].computed_covariance) and not isnone(result.clusters[k].train_inverse) and "
                   "result.clusters[k].train_inverse.shape[0] == stacked_training_data.shape[1] and "
                   "result.clusters[k].train_inverse.shape[1] == stacked_training_data.shape[1])"),
                  ("membership-carried-over", "forall(0, len(model.clusters), lambda k: eqcontent(result.clusters[k]._member_points, model.clusters[k]._member_points))"),
                  ("wf:membership-1", "forall(0, len(model.clusters), lambda k: members_ok(result.clusters[k]._member_points, model._point_labels, k))"),
                  ("wf:membership", "membership_ok(result)"),
                  ("wf:distinct", "distinct_clusters(result)"),
                  ("result-is-well-formed", "wf(result)"),
                  ("def:typestate", "result._phase == 3")],
         loops={1: dict(inv=["len(optimization_tasks) == len(model.clusters)", "fresh(optimization_tasks)",
                             "forall(0, cluster_id, lambda k: fresh(optimization_tasks[k]) and optimization_tasks[k].fn_is_admm and "
                             "same(optimization_tasks[k].a0, model.clusters[k].empirical_covariance) and "
                             "optimization_tasks[k].a1 == model.arguments.sparsity_weight and optimization_tasks[k].a2 == model.arguments.window_size and "
                             "optimization_tasks[k].a3 == num_time_series and optimization_tasks[k].rho == 1 and same(optimization_tasks[k].pool, pool))",
                             "num_time_series * model.arguments.window_size == stacked_training_data.shape[1] and num_time_series >= 1"],
                        lemmas_init=["num_time_series == sensors(stacked_training_data, model.arguments.window_size)",
                                     "num_time_series * model.arguments.window_size == stacked_training_data.shape[1]"],
                        lemmas_exit=["forall(0, len(model.clusters), lambda k: optimization_tasks[k].a2 * optimization_tasks[k].a3 == stacked_training_data.shape[1])"],
                        modifies=['optimization_tasks'])})
