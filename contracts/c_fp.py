"""IEEE-754 binary64 contracts (pyvc/fpkernel.py): the one place where a float is NOT a mathematical real.

x_update_prox: the real-arithmetic contract (c_solver.py) proves  SC * IT[i, i] > 0  over the reals, where SC = rho_scale
and IT = inner_term = np.diag(new_eigenvalues).  Defect F1 (cancellation of d + sqrt(d^2 + 4 rho) for large negative d)
showed that the real-number proof says nothing about the doubles the code computes.  This contract states the same clause
in binary64, for every eigenvalue d and step parameter rho in the stated ranges (which contain everything property C03
quantifies over: variances 1e-12 .. 1e12 give |d| far below 1e100):

    requires  -1e100 <= d <= 1e100 (not NaN),  1e-100 <= rho <= 1e100
    ensures   fl(rho_scale * new_eigenvalues[i]) > 0  and is finite

`value` names the locals whose elementwise readings are multiplied (the ghost names SC, IT of the real contract)."""
from pyvc.spec import fpspec

fpspec(qualname='fast_ticc.admm.solver.x_update_prox', props=['C03'],
       inputs={'d': (-1e100, 1e100), 'rho': (1e-100, 1e100)},
       value=['rho_scale', 'inner_term'],
       label='new-eigenvalues-positive-and-finite-in-binary64',
       # native replay of a solver model / native sweep: 1x1 problem whose only eigenvalue is exactly d
       native_args="lambda d, rho: (np.array([[-d]]), np.array([[0.0]]), rho)",
       native_ok="lambda r: bool(np.all(np.isfinite(r)) and np.all(r > 0))")
