"""Contracts: fast_ticc.cluster_metrics  (C16 BIC, C17 Calinski-Harabasz)"""
from pyvc.spec import contract, specfn

CMx = 'fast_ticc.cluster_metrics.'

_K = "model.arguments.num_clusters"
_CP = "count_above(model.clusters[k].train_inverse, 0.00002)"
_LLE = "logdet(model.clusters[k].train_inverse) - trace(matmul(model.clusters[k].train_inverse, model.clusters[k].empirical_covariance))"

# C06/C13/C19: the scoring phase must leave the state it is given alone (frame obligations); the formula clauses are C16's
contract(CMx + 'bayesian_information_criterion', props=['C16', 'C06', 'C13', 'C19'],
         params=dict(model='obj:ModelState'), returns='real',
         requires=["wf(model)", "len(model._point_labels) >= 1",
                   "forall(0, " + _K + ", lambda k: not isnone(model.clusters[k].train_inverse) and not isnone(model.clusters[k].empirical_covariance) and "
                   "model.clusters[k].train_inverse.shape[0] == model.clusters[k].train_inverse.shape[1] and "
                   "model.clusters[k].empirical_covariance.shape[0] == model.clusters[k].train_inverse.shape[0] and "
                   "model.clusters[k].empirical_covariance.shape[1] == model.clusters[k].train_inverse.shape[0])"],
         ghost={'kind:cluster_params': 'idict',
                'native_ensures': [("[C16] native:bic-finite-and-matches-its-definition", "math.isfinite(result) and result == bic_definition(model)")]},
         ensures=[("[C16] bic-matches-its-definition",
                   # P*ln(T) - 2*sum_k( ln det Theta_k - tr(Theta_k S_k) ), P counted once per maximal run of equal labels
                   "result == runsum(model._point_labels, lambda k: " + _CP + ", len(model._point_labels)) * ln(len(model._point_labels)) "
                   "- 2 * rsum(lambda k: " + _LLE + ", " + _K + ")"),
                  "unchanged(model)"],
         loops={1: dict(inv=["mod_lle == rsum(lambda k: " + _LLE + ", cluster_id)",
                             "forall(0, cluster_id, lambda k: dict_has(cluster_params, k) and dict_get(cluster_params, k) == " + _CP + ")",
                             "non_zero_params == 0"],
                        modifies=['cluster_params']),
                2: dict(inv=["non_zero_params == runsum(model._point_labels, lambda k: " + _CP + ", _k)",
                             "last_point_label == ite(_k == 0, -1, model._point_labels[_k - 1])"],
                        modifies=[])})

_NWc = "stacked_training_data.shape[1]"
contract(CMx + 'calinski_harabasz_index', props=['C17', 'C06', 'C13', 'C19'],
         params=dict(stacked_training_data='arr2[real]', model='obj:ModelState'), returns='real',
         requires=["wf(model)", "len(model.clusters) >= 2", "stacked_training_data.shape[0] > len(model.clusters)",
                   "len(model._point_labels) == stacked_training_data.shape[0]",
                   "forall(0, len(model.clusters), lambda k: not isnone(model.clusters[k].stacked_data_mean) and "
                   "model.clusters[k].stacked_data_mean.shape[0] == " + _NWc + ")",
                   # C17 is stated for runs in which every cluster is non-empty
                   ("restricts:every-cluster-non-empty", "forall(0, len(model.clusters), lambda k: len(model.clusters[k]._member_points) >= 1)")],
         ghost={'numpy_float_division': True,    # np.float64 / 0 gives inf/nan, not ZeroDivisionError
                'returns': dict(NUM='numerator', DEN='denominator', GC='global_center'),
                'return_kinds': dict(NUM='arr2[real]', DEN='arr2[real]', GC='real'),
                'native_ensures': [("[C17] native:matches-the-definition-with-the-per-column-centroid",
                                    "result == chi_definition(stacked_training_data, model)"),
                                   # what the code computes today (scalar centre, finding F7): every other part of the definition --
                                   # all members of every cluster, the size weights, both degrees of freedom -- is pinned by this one
                                   ("[C17] native:pinned:matches-the-definition-with-the-scalar-centre",
                                    "result == chi_definition_scalar(stacked_training_data, model)")]},
         ensures=[("[C17] ratio-and-degrees-of-freedom", "implies(trace(DEN) != 0, result == (trace(NUM) / trace(DEN)) * "
                   "((stacked_training_data.shape[0] - len(model.clusters)) / (len(model.clusters) - 1)))"),
                  # the property: cluster means are compared with the PER-COLUMN centroid of all windows
                  ("[C17] global-centre-is-the-per-column-centroid", "forall(0, " + _NWc + ", lambda c: GC == colmean(stacked_training_data)[c])"),
                  # what the code does instead (kept so that any further drift is noticed): the mean of ALL entries
                  ("[C17] pinned:global-centre-is-the-mean-of-all-entries", "GC == mean_all(stacked_training_data)"),
                  "NUM.shape[0] == " + _NWc + " and DEN.shape[0] == " + _NWc,
                  "unchanged(stacked_training_data, model)"],
         loops={1: dict(peel=1, inv=["numerator.shape[0] == " + _NWc + " and numerator.shape[1] == " + _NWc,
                                    "denominator.shape[0] == " + _NWc + " and denominator.shape[1] == " + _NWc,
                                    "fresh(numerator) and fresh(denominator) and not same(numerator, denominator)"],
                        modifies=['numerator', 'denominator']),
                2: dict(peel=1, inv=["denominator.shape[0] == " + _NWc + " and denominator.shape[1] == " + _NWc,
                                    "fresh(denominator) and not same(numerator, denominator)"],
                        modifies=['denominator'])})
specfn('chi_definition', native="lambda X, model: (lambda K, T, g: "
       "(sum(len(c.member_points) * float(np.sum((c.stacked_data_mean - g) ** 2)) for c in model.clusters) / (K - 1)) / "
       "(sum(float(np.sum((X[p] - c.stacked_data_mean) ** 2)) for c in model.clusters for p in c.member_points) / (T - K)))"
       "(len(model.clusters), len(X), X.mean(axis=0))")

specfn('chi_definition_scalar', native="lambda X, model: (lambda K, T, g: "
       "(sum(len(c.member_points) * float(np.sum((c.stacked_data_mean - g) ** 2)) for c in model.clusters) / (K - 1)) / "
       "(sum(float(np.sum((X[p] - c.stacked_data_mean) ** 2)) for c in model.clusters for p in c.member_points) / (T - K)))"
       "(len(model.clusters), len(X), float(np.mean(X)))")

specfn('bic_definition', native="lambda model: (lambda L, cps: "
       "sum(cps[l] for i, l in enumerate(L) if i == 0 or l != L[i - 1]) * math.log(len(L)) - 2 * "
       "sum(float(np.linalg.slogdet(c.train_inverse)[1]) - float(np.trace(c.train_inverse @ c.empirical_covariance)) for c in model.clusters))"
       "(model.point_labels, [int(np.sum(np.abs(c.train_inverse) > 2e-5)) for c in model.clusters])")
