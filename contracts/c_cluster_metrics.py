"""Contracts: fast_ticc.cluster_metrics  (C16 BIC, C17 Calinski-Harabasz)"""
from pyvc.spec import contract, specfn

CMx = 'fast_ticc.cluster_metrics.'

_K = "model.arguments.num_clusters"
_CP = "count_above(model.clusters[k].train_inverse, 0.00002)"
_LLE = "logdet(model.clusters[k].train_inverse) - trace(matmul(model.clusters[k].train_inverse, model.clusters[k].empirical_covariance))"

contract(CMx + 'bayesian_information_criterion', props=['C16', 'C19'],
         params=dict(model='obj:ModelState'), returns='real',
         requires=["wf(model)", "len(model._point_labels) >= 1",
                   "forall(0, " + _K + ", lambda k: not isnone(model.clusters[k].train_inverse) and not isnone(model.clusters[k].empirical_covariance) and "
                   "model.clusters[k].train_inverse.shape[0] == model.clusters[k].train_inverse.shape[1] and "
                   "model.clusters[k].empirical_covariance.shape[0] == model.clusters[k].train_inverse.shape[0] and "
                   "model.clusters[k].empirical_covariance.shape[1] == model.clusters[k].train_inverse.shape[0])"],
         ghost={'kind:cluster_params': 'idict'},
         ensures=[("bic-matches-its-definition",
                   # P*ln(T) - 2*sum_k( ln det Theta_k - tr(Theta_k S_k) ), P counted once per maximal run of equal labels
                   "result == runsum(model._point_labels, lambda k: " + _CP + ", len(model._point_labels)) * ln(len(model._point_labels)) "
                   "- 2 * rsum(lambda k: " + _LLE + ", " + _K + ")"),
                  "unchanged(model)"],
         loops={1: dict(inv=["mod_lle == rsum(lambda k: " + _LLE + ", cluster_id)",
                             "forall(0, cluster_id, lambda k: dict_has(cluster_params, k) and dict_get(cluster_params, k) == " + _CP + ")",
                             "non_zero_params == 0"],
                        modifies=['cluster_params']),
                2: dict(inv=["non_zero_params == runsum(model._point_labels, lambda k: " + _CP + ", _k)",
                             "last_point_label == ite(_k == 0, -1, model._point_labels[_k - 1])"],
                        modifies=[])})
