"""Structural (AST data-flow) obligations, decided on the real source of every run (C14, C15, C19, C20, C07)."""
from pyvc.spec import structural


def _lazy(name):
    def run(repo):
        from pyvc import structural as ST
        return getattr(ST, name)(repo)
    return run


structural('effects', ['C14', 'C20'], _lazy('effects'))
structural('module-state', ['C14', 'C20'], _lazy('module_state'))
structural('memoised-results', ['C14', 'C19'], _lazy('cached_results_not_mutated'))
structural('pool-api', ['C14'], _lazy('pool_api'))
structural('jit-flags', ['C15'], _lazy('numba_decorators'))
structural('prange', ['C15'], _lazy('prange_race_freedom'))
structural('numba-fallback', ['C15'], _lazy('numba_fallback'))
structural('handlers', ['C20'], _lazy('handlers'))
structural('caller-data', ['C19'], _lazy('caller_data_stores'))
structural('masked-cost', ['C07', 'C06'], _lazy('masked_cost_dataflow'))
