"""Structural (AST data-flow) obligations, decided on the real source of every run (C14, C15, C19, C20, C07)."""
from pyvc.spec import structural


def _lazy(name):
    def run(repo):
        from pyvc import structural as ST
        return getattr(ST, name)(repo)
    return run


structural('effects', ['C14', 'C20'], _lazy('effects'))
# Soundness side condition of modular contract reasoning, hence attached to EVERY property: a contract speaks about a
# function's arguments and the heap reachable from them, so a function that keeps state in module-level variables between
# calls (a hand-rolled cache, a lazily extended table) is outside every contract's frame -- its result may depend on the
# call history, which no pre/postcondition here can see.
structural('module-state', ['C%02d' % i for i in range(1, 21)], _lazy('module_state'))
structural('memoised-results', ['C14', 'C19'], _lazy('cached_results_not_mutated'))
structural('pool-api', ['C14'], _lazy('pool_api'))
structural('jit-flags', ['C15'], _lazy('numba_decorators'))
structural('prange', ['C15'], _lazy('prange_race_freedom'))
structural('numba-fallback', ['C15'], _lazy('numba_fallback'))
structural('handlers', ['C20'], _lazy('handlers'))
# C18: a vector-valued hyper-parameter stored in the argument bundle and then modified in place makes the vector form behave
# differently from the scalar form
structural('caller-data', ['C19', 'C18'], _lazy('caller_data_stores'))
structural('masked-cost', ['C07', 'C06'], _lazy('masked_cost_dataflow'))
