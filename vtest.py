import sys, time
sys.path.insert(0, '/verif')
from pyvc import spec as S
from pyvc.repo import Repo
from pyvc.engine import Engine
from pyvc.verify import verify_function
from pyvc.solve import discharge
import contracts
contracts.load_all()
names = sys.argv[1:] or list(S.CONTRACTS)
eng = Engine(Repo())
allob = []
for q in names:
    if S.CONTRACTS[q].trusted: continue
    from pyvc import models
    models.LAMBDA_MODE[0] = (S.CONTRACTS[q].ghost.get('mode') == 'lambda') != bool(__import__('os').environ.get('LAMBDA'))
    try:
        r = verify_function(eng, q)
        print(q, 'paths', r['paths'], 'obligations', len(r['obligations']))
        allob += r['obligations']
    except Exception as e:
        import traceback, os
        if os.environ.get('TB'): traceback.print_exc()
        print("FAILED", q, e)
t0=time.time()
res = discharge(allob, timeout_s=int(__import__('os').environ.get('TO','10')))
for r in res:
    if r['verdict'] != 'proved' and not (r['expect_sat'] and r['verdict']=='unknown'):
        print(r['verdict'], r['name'], '%.2fs'%r['time'], r['trail'], (str(r['info'])[:600] if r['info'] else ''))
print(len(res), 'obligations', sum(r['verdict']=='proved' for r in res), 'proved', '%.1fs'%(time.time()-t0))
for r in sorted(res, key=lambda r: -r['time'])[:8]:
    print('  slow: %.2fs %s %s %s' % (r['time'], r['verdict'], r['name'], r['backend']))
