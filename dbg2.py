import sys, time
sys.path.insert(0, '/verif')
from pyvc import spec as S, models
from pyvc.repo import Repo
from pyvc.engine import Engine
from pyvc.verify import verify_function
from pyvc.solve import to_smt2
import contracts, z3
contracts.load_all()
q, pat, trail = sys.argv[1], sys.argv[2], sys.argv[3]
for mode in (False, True):
    models.LAMBDA_MODE[0] = mode
    eng = Engine(Repo())
    r = verify_function(eng, q)
    for ob in r['obligations']:
        if pat in ob.name and trail in ' '.join(ob.trail):
            smt = to_smt2(ob)
            open('/tmp/dbg_%s.smt2' % mode,'w').write(smt)
            for opts in [{'smt.mbqi': False, 'smt.arith.nl': False}, {'smt.mbqi': False}, {}]:
                s = z3.Solver()
                s.set('timeout', 60000)
                for k, v in opts.items(): s.set(k, v)
                s.from_string(smt)
                t0 = time.time(); res = s.check()
                print('lambda' if mode else 'axiom', opts, res, '%.2f' % (time.time()-t0), s.reason_unknown() if res==z3.unknown else '')
            break
